"""C02 — emitted rows always agree with the emitted descriptor."""
import copy
import datetime
import decimal
import json
import os

import dataflows as DF
from dataflows import Flow
from datapackage import Package, Resource
from tableschema.exceptions import CastError

from .. import canon, fast, stepcorr as S, stepprop as P  # noqa: F401
from ..common import quiet

LAYER_A = ['delete_fields', 'select_fields', 'add_field', 'filter_rows', 'deduplicate', 'delete_resource',
           'set_primary_key', 'update_resource', 'duplicate', 'add_computed_field', 'find_replace']


def base_resource(rng, n):
    rows = []
    for i in range(n):
        rows.append({'id': i, 'grp': rng.choice(['a', 'b', 'c']), 'val': rng.choice([None, 1, 2, 5, -3, 4, 8]),
                     'amt': decimal.Decimal(rng.choice(['1.5', '2', '-0.25'])), 'flag': rng.choice([True, False, None]),
                     'day': datetime.date(2020, 1, 1 + i % 28), 'arr': rng.choice([[1, 2], [], ['x']])})
    return rows


def fields_of(desc, i):
    return [(f['name'], f['type']) for f in desc['resources'][i]['schema']['fields']]


def propose(rng, desc, counter):
    """one well-typed step for the current (real) descriptor → (label, factory) or None"""
    nres = len(desc['resources'])
    if nres == 0:
        return None
    ri = rng.randrange(nres)
    rname = desc['resources'][ri]['name']
    fs = fields_of(desc, ri)
    names = [n for n, _ in fs]
    ints = [n for n, t in fs if t == 'integer']
    strs = [n for n, t in fs if t == 'string']
    kind = rng.choice(['add_field', 'computed', 'delete', 'select', 'rename', 'set_type', 'filter', 'pk-dedup', 'sort', 'unpivot',
                       'concat', 'join', 'duplicate', 'delete_res', 'rename_res', 'find_replace', 'observer', 'iterable',
                       'row_fn'])
    fresh = 'n%d' % counter
    if kind == 'add_field':
        typ, default = rng.choice([('integer', 7), ('string', 'x'), ('boolean', True), ('number', decimal.Decimal('1.5')),
                                   ('integer', None), ('date', datetime.date(2020, 2, 2)), ('array', [1])])
        return 'add_field:' + typ, lambda: DF.add_field(fresh, typ, default, resources=rname)
    if kind == 'computed' and 'id' in ints:
        op = rng.choice(['sum', 'avg', 'max', 'min', 'multiply', 'constant', 'join', 'format'])
        # sources only where the operation reads them (the declared type is derived from the source fields)
        srcs = ['id'] if op in ('sum', 'avg', 'max', 'min', 'multiply', 'join') else []
        with_ = {'constant': 'k', 'join': '-', 'format': 'row {id}'}.get(op, '')
        return 'computed:' + op, lambda: DF.add_computed_field(target=fresh, operation=op, source=srcs, with_=with_, resources=rname)
    if kind == 'delete' and len(names) > 2:
        victim = rng.choice([n for n in names if n != 'id'])
        return 'delete_fields', lambda: DF.delete_fields([victim], resources=rname, regex=False)
    if kind == 'select' and len(names) > 2:
        keep = ['id'] + rng.sample([n for n in names if n != 'id'], rng.randint(1, len(names) - 1)) if 'id' in names else names[:2]
        return 'select_fields', lambda: DF.select_fields(list(keep), resources=rname, regex=False)
    if kind == 'rename' and len(names) > 1:
        cands = [n for n in names if n != 'id']
        victim = rng.choice(cands)
        shape = rng.choice(['fresh', 'fresh', 'swap', 'chain']) if len(cands) >= 2 else 'fresh'
        if shape == 'swap':
            a, b = rng.sample(cands, 2)
            return 'rename_fields:swap', lambda: DF.rename_fields({a: b, b: a}, resources=rname, regex=False)
        if shape == 'chain':
            a, b = rng.sample(cands, 2)
            return 'rename_fields:chain', lambda: DF.rename_fields({a: b, b: fresh}, resources=rname, regex=False)
        return 'rename_fields', lambda: DF.rename_fields({victim: fresh}, resources=rname, regex=False)
    if kind == 'set_type' and ints:
        f = rng.choice(ints)
        return 'set_type', lambda: DF.set_type(f, type='number', resources=rname, regex=False)
    if kind == 'filter' and 'id' in names:
        return 'filter_rows', lambda: DF.filter_rows(not_equals=[{'id': rng.choice([0, 1, 99])}], resources=rname)
    if kind == 'pk-dedup' and 'grp' in names:
        return 'pk+dedup', lambda: Flow(DF.set_primary_key(['grp'], resources=rname), DF.deduplicate(resources=rname))
    if kind == 'sort' and 'id' in names:
        return 'sort_rows', lambda: DF.sort_rows('{id}', resources=rname, reverse=rng.random() < 0.5)
    if kind == 'unpivot' and len(ints) >= 2:
        pick = [n for n in ints if n != 'id'][:2]
        if len(pick) == 2:
            kname = 'which' if 'which' not in names else fresh + 'k'     # the extra key must be a new field name
            return 'unpivot', lambda: DF.unpivot([{'name': pick[0], 'keys': {kname: 'first'}}, {'name': pick[1], 'keys': {kname: 'second'}}],
                                                 [{'name': kname, 'type': 'string'}], {'name': fresh, 'type': 'integer'},
                                                 regex=False, resources=rname)
    if kind == 'concat' and nres >= 2:
        a, b = desc['resources'][0], desc['resources'][1]
        fa, fb = dict(fields_of(desc, 0)), dict(fields_of(desc, 1))
        common = [n for n in fa if n in fb and fa[n] == fb[n]]
        if 'id' in common:
            tgt = {n: [] for n in common}
            return 'concatenate', lambda: DF.concatenate(copy.deepcopy(tgt), target={'name': fresh, 'path': fresh + '.csv'},
                                                         resources=[a['name'], b['name']])
    if kind == 'join' and nres >= 2:
        a, b = desc['resources'][0], desc['resources'][1]
        fa, fb = dict(fields_of(desc, 0)), dict(fields_of(desc, 1))
        if 'id' in fa and 'id' in fb:
            jkey = ['grp'] if (fa.get('grp') == 'string' and fb.get('grp') == 'string' and rng.random() < 0.6) else ['id']
            spec = {}
            if fa.get('val') == 'integer':
                agg = rng.choice(['sum', 'avg', 'median', 'max', 'min', 'first', 'last', 'count', 'any', 'set', 'array'])
                spec[fresh] = {'name': 'val', 'aggregate': agg}
            if fa.get('grp') == 'string':
                spec[fresh + 's'] = {'name': 'grp', 'aggregate': rng.choice(['first', 'last', 'counters', 'set', 'array', 'max', 'count'])}
            if spec:
                mode = rng.choice(['inner', 'half-outer', 'full-outer'])
                sd = rng.random() < 0.5
                return 'join:%s' % mode, lambda: DF.join(a['name'], list(jkey), b['name'], list(jkey), copy.deepcopy(spec), mode=mode, source_delete=sd)
    if kind == 'duplicate':
        return 'duplicate', lambda: DF.duplicate(source=rname, target_name=fresh, target_path=fresh + '.csv',
                                                 duplicate_to_end=rng.random() < 0.5)
    if kind == 'delete_res' and nres > 1:
        return 'delete_resource', lambda: DF.delete_resource(rname)
    if kind == 'rename_res':
        return 'update_resource', lambda: DF.update_resource(rname, name=fresh, path=fresh + '.csv')
    if kind == 'find_replace' and strs:
        f = rng.choice(strs)
        return 'find_replace', lambda: DF.find_replace([{'name': f, 'patterns': [{'find': 'a', 'replace': 'A'}]}], resources=rname)
    if kind == 'observer':
        return 'validate', lambda: DF.validate()
    if kind == 'iterable':
        return 'iterable', lambda: Flow([{'p': 1, 'q': 'z'}, {'p': 2, 'q': None}], DF.update_resource(-1, name=fresh, path=fresh + '.csv'))
    if kind == 'row_fn' and 'grp' in names:
        def fn(row):
            # a row function runs on every resource: it doubles text only (after a rename the name may hold another type)
            if isinstance(row.get('grp'), str):
                row['grp'] = row['grp'] * 2
        return 'row_fn', lambda: fn
    return None


def check_result(res, dp):
    """→ list of (signature, detail)"""
    out = []
    desc = dp.descriptor
    resources = desc.get('resources', [])
    if len(res) != len(resources):
        out.append(('streams-vs-descriptors', {'streams': len(res), 'descriptors': len(resources)}))
        return out
    names = [r['name'] for r in resources]
    if len(set(names)) != len(names):
        out.append(('duplicate-resource-names', names))
    for r, rows in zip(resources, res):
        robj = Resource(copy.deepcopy(r))
        fields = {f.name: f for f in robj.schema.fields}
        fnames = [f['name'] for f in r['schema']['fields']]
        if len(set(fnames)) != len(fnames):
            out.append(('duplicate-field-names', {'resource': r['name'], 'fields': fnames}))
        for row in rows:
            extra = [k for k in row if k not in fields]
            if extra:
                out.append(('row-has-undeclared-field', {'resource': r['name'], 'extra': extra, 'fields': fnames}))
                break
            bad = None
            for k, v in row.items():
                if v is None:
                    continue
                try:
                    cv = fields[k].cast_value(v)
                    if type(cv) is not type(v) and not (isinstance(v, (int, float, decimal.Decimal)) and isinstance(cv, (int, float, decimal.Decimal)) and not isinstance(v, bool)):
                        bad = (k, repr(v), 'cast changes the value type to %s' % type(cv).__name__)
                except CastError:
                    bad = (k, repr(v), 'not valid for type %s' % fields[k].type)
                if bad:
                    break
            if bad:
                out.append(('value-invalid-for-declared-type:%s' % fields[bad[0]].type, {'resource': r['name'], 'field': bad[0],
                                                                                          'value': bad[1], 'why': bad[2]}))
                break
    try:
        if not Package(copy.deepcopy(desc)).valid:
            out.append(('descriptor-not-a-valid-data-package', [str(e)[:200] for e in Package(copy.deepcopy(desc)).errors][:3]))
    except Exception as e:  # noqa
        out.append(('descriptor-not-a-valid-data-package', repr(e)[:200]))
    return out


def pipeline_case(ctx, rng, idx):
    rep = ctx.report
    nres = rng.randint(1, 3)
    sources = [base_resource(rng, rng.choice([1, 3, 8, 120])) for _ in range(nres)]
    steps, labels = [], []

    def run(extra):
        with quiet():
            return Flow(*[copy.deepcopy(s) for s in sources], *[f() for f in steps], *extra).results()
    res, dp, _ = run([])
    target_len = rng.randint(1, 6)
    counter = 0
    for _ in range(target_len * 3):
        if len(steps) >= target_len:
            break
        counter += 1
        prop = propose(rng, dp.descriptor, idx * 100 + counter)
        if prop is None:
            continue
        label, fac = prop
        steps.append(fac)
        labels.append(label)
        case = {'pipeline': labels[:], 'rows_per_source': [len(s) for s in sources]}
        try:
            res, dp, _ = run([])
        except Exception as e:  # noqa
            cause = getattr(e, 'cause', e)
            from dataflows.base.schema_validator import ValidationError
            from tableschema.exceptions import TableSchemaException
            if isinstance(cause, (ValidationError, TableSchemaException)):
                # the rows no longer agree with the descriptor: what C02 is about
                rep.case('pipeline', case, nontrivial=False)
                rep.fail('well-typed-pipeline-fails:%s:%s' % (label.split(':')[0], type(cause).__name__), case, repr(e)[:400])
                return
            # the proposed step rejects this package for its own reasons (missing key, its own assertion): not a
            # well-typed continuation; drop the proposal
            rep.hist('proposal_discarded', '%s:%s' % (label.split(':')[0], type(cause).__name__))
            steps.pop()
            labels.pop()
            continue
    case = {'pipeline': labels[:], 'rows_per_source': [len(s) for s in sources]}
    rep.case('pipeline', case, nontrivial=len(labels) > 1)
    rep.hist('pipeline_len', len(labels))
    for lb in labels:
        rep.hist('step', lb.split(':')[0])
    for sig, detail in check_result(res, dp):
        rep.fail(sig + ':after:' + (labels[-1].split(':')[0] if labels else 'source'), case, detail)


SCHEMA_PENDING = []


def schema_corr(ctx, case, prefix_links, spec, dp_after, target_name):
    """queue the comparison of the target's fields after the join with the model's `joinTargetFields`"""
    with quiet():
        before = Flow(*prefix_links).results(on_error=None)[1].descriptor
    src_f = [canon.enc_field(f) for f in before['resources'][0]['schema']['fields']]
    tgt_f = [canon.enc_field(f) for f in before['resources'][1]['schema']['fields']]
    specs = []
    for name, sp in spec.items():
        sp = sp or {}
        specs.append({'name': name, 'src': sp.get('name', name), 'agg': sp.get('aggregate', 'any')})
    after = [r for r in dp_after.descriptor['resources'] if r['name'] == target_name][0]
    real = {'fields': [canon.enc_field(f) for f in after['schema']['fields']]}
    SCHEMA_PENDING.append((case, {'op': 'joinschema', 'source_fields': src_f, 'target_fields': tgt_f, 'specs': specs}, real))


AGGS = ['sum', 'avg', 'median', 'max', 'min', 'first', 'last', 'count', 'any', 'set', 'array', 'counters']
SRC_TYPES = {
    'integer': [3, 4, 10, 1, 2, 2, 7, 0, -5],
    'number': [1.5, 2.25, 10.0, 1.0, 2.0, 2.0, 7.5, 0.0, -5.5],
    'string': ['b', 'a', 'zz', '', 'q', 'q', 'x y', 'A', 'é'],
    'date': [datetime.date(2020, 1, d) for d in (3, 4, 10, 1, 2, 2, 7, 9, 5)],
    'boolean': [True, False, True, False, False, True, True, True, False],
}


def join_matrix(ctx):
    """every aggregator x source-column type x join flavour, over groups of 1, 2, 3 and 0 source rows"""
    rep = ctx.report
    from dataflows.base.schema_validator import ValidationError
    from tableschema.exceptions import TableSchemaException
    keys = ['g1', 'g2', 'g2', 'g3', 'g3', 'g3', 'g4', 'g4', 'g5']
    for typ, vals in SRC_TYPES.items():
        src = [{'k': k, 'val': v} for k, v in zip(keys, vals)]
        tgt = [{'k': k, 'other': i} for i, k in enumerate(['g1', 'g2', 'g3', 'g0', 'g2'])]
        for agg in AGGS:
            if agg in ('sum', 'avg', 'median') and typ not in ('integer', 'number'):
                continue   # arithmetic over a non-numeric column is not a well-typed use
            for flavour in ('inner', 'half-outer', 'full-outer', 'self'):
                case = {'join-matrix': {'type': typ, 'aggregate': agg, 'flavour': flavour}}
                spec = {'out': {'name': 'val', 'aggregate': agg}}
                try:
                    with quiet():
                        if flavour == 'self':
                            res, dp, _ = Flow(copy.deepcopy(src), DF.set_type('val', type=typ),
                                              DF.join_with_self('res_1', ['k'], {'k': None, **spec})).results()
                        else:
                            res, dp, _ = Flow(copy.deepcopy(src), DF.set_type('val', type=typ), copy.deepcopy(tgt),
                                              DF.join('res_1', ['k'], 'res_2', ['k'], spec, mode=flavour)).results()
                except Exception as e:  # noqa
                    cause = getattr(e, 'cause', e)
                    if isinstance(cause, (ValidationError, TableSchemaException)):
                        rep.case('join-matrix', case, nontrivial=False)
                        rep.fail('join-matrix-fails:%s:%s:%s' % (agg, typ, type(cause).__name__), case, repr(e)[:300])
                    else:
                        # the aggregator itself rejects this column type (sum of dates, ...): not a well-typed pipeline
                        rep.hist('join_matrix_rejected', '%s:%s' % (agg, typ))
                    continue
                rep.case('join-matrix', case)
                for sig, detail in check_result(res, dp):
                    rep.fail('%s:join-matrix:%s:%s' % (sig, agg, typ), case, detail)
                if flavour != 'self':
                    schema_corr(ctx, case, [copy.deepcopy(src), DF.set_type('val', type=typ), copy.deepcopy(tgt)], spec, dp, 'res_2')


def computed_matrix(ctx):
    """add_computed_field with an inferred (string) target: every operation x source-type combination, in both
    schema orders, over rows whose results are not integral"""
    rep = ctx.report
    from dataflows.base.schema_validator import ValidationError
    from tableschema.exceptions import TableSchemaException
    vals = {'integer': [3, -2, 7], 'number': [1.5, 0.25, -3.75], 'string': ['x', '', 'y z']}
    for ta in vals:
        for tb in vals:
            for op in ('sum', 'avg', 'max', 'min', 'multiply', 'join', 'format', 'constant'):
                if op in ('sum', 'avg', 'max', 'min', 'multiply') and 'string' in (ta, tb):
                    continue   # arithmetic over strings is not a well-typed use
                for srcs in (['a', 'b'], ['b', 'a'], ['a'], ['b']):
                    if op == 'constant':
                        srcs = []     # a constant has no sources (their types would be inherited)
                    case = {'computed-matrix': {'a': ta, 'b': tb, 'operation': op, 'source': srcs}}
                    rows = [{'a': x, 'b': y} for x, y in zip(vals[ta], vals[tb])]
                    kw = {'sum': {}, 'avg': {}, 'max': {}, 'min': {}, 'multiply': {}, 'join': {'with': '-'},
                          'format': {'with': '{a}/{b}'}, 'constant': {'with': 'k'}}[op]
                    spec = [dict(target='out', operation=op, source=list(srcs), **kw)]
                    try:
                        with quiet():
                            res, dp, _ = Flow(rows, DF.set_type('a', type=ta), DF.set_type('b', type=tb),
                                              DF.add_computed_field(spec)).results()
                    except Exception as e:  # noqa
                        cause = getattr(e, 'cause', e)
                        if isinstance(cause, (ValidationError, TableSchemaException)):
                            rep.case('computed-matrix', case, nontrivial=False)
                            rep.fail('computed-matrix-fails:%s:%s' % (op, type(cause).__name__), case, repr(e)[:300])
                        else:
                            rep.hist('computed_matrix_rejected', '%s:%s:%s' % (op, ta, tb))
                        continue
                    rep.case('computed-matrix', case)
                    for sig, detail in check_result(res, dp):
                        rep.fail('%s:computed-matrix:%s' % (sig, op), case, detail)


def join_shapes(ctx):
    """join specifications beyond one-aggregate-per-column: several target fields fed by one source column, renamed
    copies, sources kept (source_delete=False) or deleted, every mode; all resources must still conform"""
    rep = ctx.report
    from dataflows.base.schema_validator import ValidationError
    from tableschema.exceptions import TableSchemaException
    src = [{'k': 'g1', 'day': datetime.date(2020, 1, 3), 'name': 'ann', 'n': 3},
           {'k': 'g1', 'day': datetime.date(2020, 1, 9), 'name': 'bob', 'n': 4},
           {'k': 'g2', 'day': datetime.date(2021, 5, 1), 'name': None, 'n': 0}]
    tgt = [{'k': 'g1', 'other': 1}, {'k': 'g2', 'other': 2}, {'k': 'g0', 'other': 3}]
    specs = {
        'two-from-one-first-last': {'first_seen': {'name': 'day', 'aggregate': 'first'}, 'last_seen': {'name': 'day', 'aggregate': 'last'}},
        'two-from-one-min-max': {'lo': {'name': 'n', 'aggregate': 'min'}, 'hi': {'name': 'n', 'aggregate': 'max'}},
        'renamed-any': {'person': {'name': 'name'}},
        'same-name-and-renamed': {'name': None, 'name_again': {'name': 'name', 'aggregate': 'last'}},
        'three-from-one': {'a1': {'name': 'n', 'aggregate': 'sum'}, 'a2': {'name': 'n', 'aggregate': 'count'}, 'a3': {'name': 'n', 'aggregate': 'any'}},
    }
    for label, spec in specs.items():
        for mode in ('inner', 'half-outer', 'full-outer'):
            for sd in (True, False):
                case = {'join-shape': label, 'mode': mode, 'source_delete': sd}
                try:
                    with quiet():
                        res, dp, _ = Flow(copy.deepcopy(src), copy.deepcopy(tgt),
                                          DF.join('res_1', ['k'], 'res_2', ['k'], copy.deepcopy(spec), mode=mode, source_delete=sd)).results()
                except Exception as e:  # noqa
                    cause = getattr(e, 'cause', e)
                    rep.case('join-shape', case, nontrivial=False)
                    if isinstance(cause, (ValidationError, TableSchemaException)):
                        rep.fail('join-shape-fails:%s:%s' % (label, type(cause).__name__), case, repr(e)[:300])
                    else:
                        rep.hist('join_shape_rejected', '%s:%s' % (label, type(cause).__name__))
                    continue
                rep.case('join-shape', case)
                for sig, detail in check_result(res, dp):
                    rep.fail('%s:join-shape:%s' % (sig, label), case, detail)
                schema_corr(ctx, case, [copy.deepcopy(src), copy.deepcopy(tgt)], spec, dp, 'res_2')
                # the kept source leaves as it came
                if not sd:
                    got = [f['name'] for f in dp.descriptor['resources'][0]['schema']['fields']]
                    if got != ['k', 'day', 'name', 'n'] or [dict(r) for r in res[0]] != src:
                        rep.fail('join-shape:kept-source-changed:%s' % label, case, {'fields': got})


def concat_shapes(ctx):
    """concatenate over a selection: bystander resources (before, between-free, after the selected run) that have
    columns named like the mapped ones, with other types; renaming mappings; the target and every bystander conform"""
    rep = ctx.report
    from dataflows.base.schema_validator import ValidationError
    from tableschema.exceptions import TableSchemaException
    labels = [{'code': 'x1', 'year': 'MM'}, {'code': 'x2', 'year': 'MMI'}]          # code, year: strings
    y1 = [{'id': 1, 'year': 2001, 'v': 1.5}, {'id': 2, 'year': 2002, 'v': 2.5}]       # id, year: integers
    y2 = [{'id': 1, 'yr': 2003, 'v': 0.5}, {'id': 3, 'yr': 2004, 'v': None}]
    notes = [{'id': 'n1', 'v': 'text'}]                                               # id, v: strings
    mappings = {
        'same-names': {'id': [], 'year': ['yr'], 'v': []},
        'renaming': {'code': ['id'], 'year': ['yr'], 'value': ['v']},
        'subset': {'id': [], 'v': []},
    }
    layouts = {
        'bystander-first': ([labels, y1, y2], ['res_2', 'res_3']),
        'bystander-last': ([y1, y2, notes], ['res_1', 'res_2']),
        'bystanders-both': ([labels, y1, y2, notes], ['res_2', 'res_3']),
        'all-selected': ([y1, y2], None),
    }
    for lname, (sources, sel) in layouts.items():
        for mname, mapping in mappings.items():
            case = {'concat-shape': lname, 'mapping': mname}
            try:
                with quiet():
                    before = Flow(*[copy.deepcopy(s) for s in sources]).results()
                    res, dp, _ = Flow(*[copy.deepcopy(s) for s in sources],
                                      DF.concatenate(copy.deepcopy(mapping), target={'name': 'all', 'path': 'all.csv'},
                                                     resources=sel)).results()
            except Exception as e:  # noqa
                cause = getattr(e, 'cause', e)
                rep.case('concat-shape', case, nontrivial=False)
                if isinstance(cause, (ValidationError, TableSchemaException)):
                    rep.fail('concat-shape-fails:%s:%s:%s' % (lname, mname, type(cause).__name__), case, repr(e)[:300])
                else:
                    rep.hist('concat_shape_rejected', '%s:%s:%s' % (lname, mname, type(cause).__name__))
                continue
            rep.case('concat-shape', case)
            for sig, detail in check_result(res, dp):
                rep.fail('%s:concat-shape:%s:%s' % (sig, lname, mname), case, detail)
            # bystanders leave as they came
            b_desc = {r['name']: r for r in before[1].descriptor['resources']}
            b_rows = dict(zip([r['name'] for r in before[1].descriptor['resources']], before[0]))
            for r, rows in zip(dp.descriptor['resources'], res):
                if r['name'] in b_desc and (sel is not None and r['name'] not in sel):
                    if r['schema'] != b_desc[r['name']]['schema'] or [dict(x) for x in rows] != [dict(x) for x in b_rows[r['name']]]:
                        rep.fail('concat-shape:bystander-changed:%s:%s' % (lname, mname), case,
                                 {'resource': r['name'], 'fields': [f['name'] for f in r['schema']['fields']]})


def probe(finding):
    if finding['signature'].startswith('row-has-undeclared-field:after:join'):
        with quiet():
            res, dp, _ = Flow([{'id': 1, 'v': 1}], [{'id': 5}], DF.join('res_1', '{#}', 'res_2', '{#}', {'o': {'name': 'v', 'aggregate': 'sum'}},
                                                                          mode='full-outer')).results()
        return any('#' in r for r in res[0])
    raise ValueError(finding['signature'])


def run(ctx):
    rep = ctx.report
    rep.rule = ('well-typed pipelines of 1-6 built-in steps (field, row, resource and package level; join with every '
                'aggregator and mode, concatenate of same-typed fields, unpivot, computed fields, set_type, sort, duplicate, '
                'iterables, user row functions) grown step by step against the real descriptor, over 1-3 conforming typed '
                'resources of 1-120 rows; after every pipeline: results() must not fail, one stream per descriptor, unique '
                'names, row keys declared, every cell null or valid (Field.cast_value) and the descriptor a valid Data '
                'Package; plus the step correspondence for the Layer-A steps; non-trivial = more than one step')
    rep.assumptions = ['Table Schema validity is what Field.cast_value accepts (parameter V of the theorems)']
    rng = ctx.rng('main')
    for idx in range(ctx.n(120, 2000)):
        pipeline_case(ctx, rng, idx)
    join_matrix(ctx)
    join_shapes(ctx)
    concat_shapes(ctx)
    computed_matrix(ctx)
    if ctx.model.available():
        outs = ctx.model.run([op for _, op, _ in SCHEMA_PENDING])
        for (case, _op, real), mo in zip(SCHEMA_PENDING, outs):
            rep.corr('joinschema', case, real, mo)
    del SCHEMA_PENDING[:]
    # the model side of the same steps
    P.run_cases(ctx, LAYER_A, None, ctx.n(400, 5000), salt='corr')

    def search(disagreements):
        rng2 = ctx.rng('search')
        before = len(rep.oracle_failures)
        for idx in range(ctx.n(600, 5000)):
            pipeline_case(ctx, rng2, 10 ** 5 + idx)
            if len(rep.oracle_failures) > before:
                o = rep.oracle_failures[before]
                return {'signature': o['signature'], 'case': o['case'], 'detail': o['detail']}
        return None
    return ctx.finish(probe=probe, search=search)


def replay(payload):
    print(json.dumps(payload.get('input'), indent=1)[:3000])
    return 0
