"""C16 — resource-level restructuring conserves rows."""
import copy

import dataflows as DF
from dataflows import Flow

from .. import canon, stepcorr as S, stepprop as P
from ..common import quiet

LAYER_A = ['concatenate', 'duplicate', 'delete_resource']


def spec_concat(a, desc, rows, flags):
    """→ (list of (name, rows)) | 'error'"""
    fields = a['fields']
    mapping = {}
    for t, srcs in fields.items():
        for s in srcs:
            if s in mapping:
                return 'error'
            mapping[s] = t
        if t in mapping:
            return 'error'
        mapping[t] = t
    # consecutive?
    idx = [i for i, f in enumerate(flags) if f]
    if idx and idx != list(range(idx[0], idx[-1] + 1)):
        return 'error'
    tname = a['target'].get('name', 'concat')
    if not idx:
        return 'error'  # target descriptor without stream
    out = []
    merged = []
    for i in idx:
        for r in rows[i]:
            vals = {mapping[k]: v for k, v in r.items() if k in mapping and v is not None}
            if not vals:
                return 'error'
            nr = {k: None for k in fields}
            nr.update(vals)
            merged.append(nr)
    for i, d in enumerate(desc['resources']):
        if i == idx[0]:
            out.append((tname, merged))
        elif i in idx:
            continue
        else:
            out.append((d['name'], rows[i]))
    return out


def oracle(proc, a, desc, rows, real):
    out = []
    if proc != 'duplicate':
        out += P.frame_oracle(proc, a, desc, rows, real)
        if P.sel_invalid(a, desc):
            return out
        flags = P.selected_flags(a, desc)
    names = S.res_names(desc)
    if proc == 'delete_resource':
        if 'ok' not in real:
            out.append(('delete_resource:unexpected-error', real))
            return out
        exp = [(n, rw) for n, rw, f in zip(names, rows, flags) if not f]
    elif proc == 'duplicate':
        src = a['source'] if a['source'] is not None else names[0]
        tn = a['target_name'] or (src + '_copy')
        exp = []
        tail = []
        for n, rw in zip(names, rows):
            exp.append((n, rw))
            if n == src:
                (tail if a['duplicate_to_end'] else exp).append((tn, rw))
        exp += tail
        if 'ok' not in real:
            out.append(('duplicate:unexpected-error', real))
            return out
    else:
        exp = spec_concat(a, desc, rows, flags)
        if exp == 'error':
            if 'ok' in real:
                out.append(('concatenate:invalid-configuration-accepted', {'real': canon.norm_pkg(real['ok'])}))
            return out
        if 'ok' not in real:
            out.append(('concatenate:unexpected-error', real))
            return out
    got = [(r['name'], [canon.norm_row(x) for x in r['rows']]) for r in real['ok']]
    want = [(n, [canon.norm_row(canon.enc_row(x)) for x in rw]) for n, rw in exp]
    if got != want:
        nin = sum(len(r) for r in rows)
        nout = sum(len(r[1]) for r in got)
        sig = '%s:rows' % proc
        if [g[0] for g in got] != [w[0] for w in want]:
            sig = '%s:resource-order-or-set' % proc
        elif sum(len(w[1]) for w in want) > nout:
            sig = '%s:rows-lost' % proc
        elif sum(len(w[1]) for w in want) < nout:
            sig = '%s:rows-invented' % proc
        out.append((sig, {'expected': want, 'got': got, 'rows_in': nin, 'rows_out': nout}))
    if proc == 'duplicate' and 'ok' in real:
        src_i = names.index(src)
        copies = [r for r in real['ok'] if r['name'] == tn]
        for c in copies:
            o = real['ok'][[r['name'] for r in real['ok']].index(src)]
            if [f for f in c['fields']] != [f for f in o['fields']] or c['pk'] != o['pk']:
                out.append(('duplicate:copy-schema-differs', {'copy': c['fields'], 'orig': o['fields']}))
    return out


def reuse_case(ctx, rng):
    """a step object (or a whole Flow) used for a second run restructures the package exactly as the first time"""
    rep = ctx.report
    proc = rng.choice(LAYER_A)
    desc, rows = S.gen_pkg(rng)
    a = S.PROCS[proc].gen(rng, desc, rows)
    step = S.PROCS[proc].real(copy.deepcopy(a))
    case = {'proc': proc, 'args': S.jsonable_args(a), 'reuse': 'same-step-two-flows', 'desc': desc, 'rows': canon._plain(rows)}
    first = S.run_real([step], desc, rows)       # each run gets a fresh copy of the package
    second = S.run_real([step], desc, rows)
    rep.case('real:reuse:' + proc, case, nontrivial='ok' in first)
    if S.norm_result(first) != S.norm_result(second):
        rep.fail('reuse:%s:second-run-differs' % proc, case, {'first': str(S.norm_result(first))[:600],
                                                             'second': str(S.norm_result(second))[:600]})


def mutate_case(ctx, rng):
    """duplicate followed by a step that edits the original's rows in place: the copy must hold the
    rows as they were (regression input of the fixed defect)"""
    rep = ctx.report
    n = rng.choice([1, 2, 3, 7])
    data = [{'a': i, 'l': [i]} for i in range(n)]
    bs = rng.choice([1, 2, 1000])
    to_end = rng.random() < 0.5

    def mut_first(rows):
        if rows.res.name == 'res_1':
            for r in rows:
                r['a'] = r['a'] * 100 + 7
                r['l'].append('x')
                yield r
        else:
            yield from rows
    case = {'proc': 'duplicate+mutator', 'n': n, 'batch_size': bs, 'duplicate_to_end': to_end}
    with quiet():
        res = Flow(copy.deepcopy(data), DF.duplicate(batch_size=bs, duplicate_to_end=to_end), mut_first).results()[0]
    rep.case('real:duplicate+mutator', case)
    if res[1] != data:
        rep.fail('duplicate:copy-sees-downstream-mutation', case, {'copy': res[1], 'expected': data})


def append_case(ctx, rng):
    """iterables / sources / load((descriptor, iterators)) append their resources after the existing ones"""
    rep = ctx.report
    desc, rows = S.gen_pkg(rng, max_res=3)
    kind = rng.choice(['iterable', 'sources', 'load-tuple', 'load-tuple-sel'])
    new_rows = [{'p': i, 'q': 'v%d' % i} for i in range(rng.choice([0, 1, 3, 120]))]
    names_before = S.res_names(desc)
    if kind == 'iterable':
        step = new_rows and list(new_rows) or [{'p': 0, 'q': 'v0'}]
        new_rows = list(step)
        expected_new = [('res_%d' % (len(names_before) + 1), new_rows)]
    elif kind == 'sources':
        step = DF.sources(list(new_rows) or [{'p': 0, 'q': 'v'}], [{'z': 1}])
        # each sub-source is its own flow: both are named res_1 by the loader (naming is the user's job)
        expected_new = [('res_1', list(new_rows) or [{'p': 0, 'q': 'v'}]), ('res_1', [{'z': 1}])]
    else:
        d2 = canon.make_descriptor([{'name': 'new1', 'fields': [('p', 'integer'), ('q', 'string')]},
                                    {'name': 'new2', 'fields': [('p', 'integer'), ('q', 'string')]}])
        sel = None if kind == 'load-tuple' else rng.choice(['new2', ['new1'], 1, 'new.*'])
        step = DF.load((d2, [iter(copy.deepcopy(new_rows)), iter(copy.deepcopy(new_rows[:1]))]), resources=sel)
        flags = [S.py_selects(sel, ['new1', 'new2'], i, n) for i, n in enumerate(['new1', 'new2'])]
        expected_new = [(n, rw) for (n, rw), f in zip([('new1', new_rows), ('new2', new_rows[:1])], flags) if f]
    case = {'proc': kind, 'desc': desc, 'rows': canon._plain(rows), 'new_rows': len(new_rows)}
    real = S.run_real([step], desc, rows)
    rep.case('real:' + kind, case, nontrivial='ok' in real)
    if 'ok' not in real:
        rep.fail('%s:unexpected-error' % kind, case, real)
        return
    got = [(r['name'], [canon.norm_row(x) for x in r['rows']]) for r in real['ok']]
    want = [(n, [canon.norm_row(canon.enc_row(x)) for x in rw]) for n, rw in list(zip(names_before, rows)) + expected_new]
    if got != want:
        rep.fail('%s:not-appended-after-existing' % kind, case, {'expected': want, 'got': got})


def sequence_case(ctx, rng):
    """two-step sequences in which a later restructuring step discards what an earlier one still needs streamed:
    duplicate(X) then delete_resource(X); concatenate then delete of the target; duplicate then concatenate"""
    rep = ctx.report
    n = rng.choice([0, 1, 3, 40, 1200])
    rows = [[{'k': i, 'v': 'x%d' % i} for i in range(n)], [{'k': -1, 'v': 'other'}]]
    desc = canon.make_descriptor([{'name': 'orig', 'fields': [('k', 'integer'), ('v', 'string')]},
                                  {'name': 'other', 'fields': [('k', 'integer'), ('v', 'string')]}])
    kind = rng.choice(['dup-then-delete-original', 'dup-then-delete-copy', 'dup-then-concat', 'concat-then-dup',
                       'dup-then-edit-copy', 'dup-then-edit-original'])
    to_end = rng.random() < 0.5
    bs = rng.choice([1, 7, 1000])
    if kind.startswith('dup-then-edit'):
        # the copy and the original are independent afterwards: editing one leaves the other as it was
        edited, kept = ('copy', 'orig') if kind.endswith('copy') else ('orig', 'copy')
        edit = rng.choice(['delete_fields', 'add_field', 'set_type', 'rename_fields', 'update_schema', 'set_primary_key'])
        step2 = {'delete_fields': lambda: DF.delete_fields(['v'], resources=edited),
                 'add_field': lambda: DF.add_field('c', 'integer', 1, resources=edited),
                 'set_type': lambda: DF.set_type('k', type='number', resources=edited),
                 'rename_fields': lambda: DF.rename_fields({'v': 'w'}, resources=edited),
                 'update_schema': lambda: DF.update_schema(edited, missingValues=['', 'x']),
                 'set_primary_key': lambda: DF.set_primary_key(['k'], resources=edited)}[edit]
        steps = [DF.duplicate(source='orig', target_name='copy', batch_size=bs, duplicate_to_end=to_end), step2()]
        case = {'sequence': kind, 'edit': edit, 'n': n, 'duplicate_to_end': to_end, 'batch_size': bs}
        real = S.run_real(steps, desc, rows)
        rep.case('real:sequence:' + kind, case, nontrivial=n > 0)
        if 'ok' not in real:
            rep.fail('sequence:%s:unexpected-error' % kind, case, real)
            return
        ref = canon.norm_pkg(canon.enc_pkg(desc, rows))[0]
        got = [r for r in canon.norm_pkg(real['ok']) if r['name'] == kept]
        if len(got) != 1:
            rep.fail('sequence:%s:resource-missing' % kind, case, [r['name'] for r in real['ok']])
            return
        for key in ('fields', 'pk', 'rows', 'props'):
            if got[0].get(key) != ref.get(key) and not (key == 'props'):
                rep.fail('sequence:%s:%s:other-of-the-pair-changed:%s' % (kind, edit, key), case,
                         {'expected': ref.get(key) if key != 'rows' else len(ref['rows']),
                          'got': got[0].get(key) if key != 'rows' else got[0]['rows'][:3]})
                return
        return
    if kind == 'dup-then-delete-original':
        steps = [DF.duplicate(source='orig', target_name='copy', batch_size=bs, duplicate_to_end=to_end), DF.delete_resource('orig')]
        want = [('other', rows[1]), ('copy', rows[0])] if to_end else [('copy', rows[0]), ('other', rows[1])]
    elif kind == 'dup-then-delete-copy':
        steps = [DF.duplicate(source='orig', target_name='copy', batch_size=bs, duplicate_to_end=to_end), DF.delete_resource('copy')]
        want = [('orig', rows[0]), ('other', rows[1])]
    elif kind == 'dup-then-concat':
        steps = [DF.duplicate(source='other', target_name='copy', batch_size=bs, duplicate_to_end=True),
                 DF.concatenate({'k': [], 'v': []}, target={'name': 'all'}, resources=['orig', 'other'])]
        want = [('all', rows[0] + rows[1]), ('copy', rows[1])]
    else:
        steps = [DF.concatenate({'k': [], 'v': []}, target={'name': 'all'}, resources=['orig', 'other']),
                 DF.duplicate(source='all', target_name='copy', batch_size=bs, duplicate_to_end=to_end)]
        want = [('all', rows[0] + rows[1]), ('copy', rows[0] + rows[1])]
    case = {'sequence': kind, 'n': n, 'duplicate_to_end': to_end, 'batch_size': bs}
    real = S.run_real(steps, desc, rows)
    rep.case('real:sequence:' + kind, case, nontrivial=n > 0)
    if 'ok' not in real:
        rep.fail('sequence:%s:unexpected-error' % kind, case, real)
        return
    got = [(r['name'], [canon.norm_row(x) for x in r['rows']]) for r in real['ok']]
    exp = [(nm, [canon.norm_row(canon.enc_row(x)) for x in rw]) for nm, rw in want]
    if got != exp:
        lost = sum(len(w[1]) for w in exp) - sum(len(g[1]) for g in got)
        rep.fail('sequence:%s:%s' % (kind, 'rows-lost' if lost > 0 else 'rows'), case,
                 {'expected': [(a, len(b)) for a, b in exp], 'got': [(a, len(b)) for a, b in got]})


def big_case(ctx, rng):
    """resources above 1000 rows through duplicate (batch boundaries) and concatenate"""
    rep = ctx.report
    n = rng.choice([999, 1000, 1001, 2500])
    rows = [[{'k': i, 'v': 'x%d' % i} for i in range(n)], [{'k': -i, 'v': 'y'} for i in range(3)]]
    desc = canon.make_descriptor([{'name': 'a', 'fields': [('k', 'integer'), ('v', 'string')]},
                                  {'name': 'b', 'fields': [('k', 'integer'), ('v', 'string')]}])
    which = rng.choice(['duplicate', 'concatenate'])
    if which == 'duplicate':
        a = {'source': 'a', 'target_name': None, 'target_path': None, 'duplicate_to_end': rng.random() < 0.5,
             'batch_size': rng.choice([1, 7, 1000]), 'sel': None}
    else:
        a = {'fields': {'k': [], 'v': []}, 'target': {'name': 'all'}, 'sel': None}
    real = S.run_real([S.PROCS[which].real(copy.deepcopy(a))], desc, rows)
    case = {'proc': which, 'args': S.jsonable_args(a), 'n': n}
    rep.case('real:big:' + which, case)
    for sig, detail in oracle(which, a, desc, rows, real):
        rep.fail(sig, case, {'n': n, 'summary': str(detail)[:500]})


def live_load_case(ctx, rng, idx):
    """load((descriptor, resource iterator)) fed by the *live* stream of another flow (its resources share one underlying
    iterator when that flow concatenates or duplicates): the loaded package is what the feeding flow produces"""
    rep = ctx.report
    nres = rng.randint(2, 4)
    tables = [[{'id': 10 * k + j, 'v': 'r%d-%d' % (k, j)} for j in range(rng.choice([0, 1, 3, 5]))] or [{'id': 10 * k, 'v': 'only'}]
              for k in range(nres)]
    kind = ['concatenate-first-two', 'concatenate-last-two', 'duplicate-first', 'delete-first', 'plain'][idx % 5]

    def feeder():
        steps = [copy.deepcopy(t) for t in tables]
        if kind == 'concatenate-first-two':
            steps.append(DF.concatenate({'id': [], 'v': []}, target={'name': 'merged', 'path': 'merged.csv'}, resources=['res_1', 'res_2']))
        elif kind == 'concatenate-last-two':
            steps.append(DF.concatenate({'id': [], 'v': []}, target={'name': 'merged', 'path': 'merged.csv'},
                                        resources=['res_%d' % (nres - 1), 'res_%d' % nres]))
        elif kind == 'duplicate-first':
            steps.append(DF.duplicate('res_1', target_name='copy', target_path='copy.csv'))
        elif kind == 'delete-first':
            steps.append(DF.delete_resource('res_1'))
        return Flow(*steps)
    case = {'feeding_flow': kind, 'rows_per_resource': [len(t) for t in tables]}
    try:
        want_rows, want_dp, _ = feeder().results(on_error=None)
        ds = feeder().datastream()
        got_rows, got_dp, _ = Flow(DF.load((ds.dp.descriptor, ds.res_iter))).results(on_error=None)
    except Exception as e:  # noqa
        rep.case('live-load', case, nontrivial=False)
        rep.fail('live-load:raises', case, repr(e)[:300])
        return
    rep.case('live-load', case)
    names = lambda dp: [r['name'] for r in dp.descriptor['resources']]   # noqa: E731
    if names(got_dp) != names(want_dp) or [[dict(r) for r in t] for t in got_rows] != [[dict(r) for r in t] for t in want_rows]:
        rep.fail('live-load:differs-from-the-feeding-flow', case,
                 {'expected': [names(want_dp), [len(t) for t in want_rows]], 'got': [names(got_dp), [len(t) for t in got_rows]]})


def run(ctx):
    rep = ctx.report
    rep.rule = ('packages of 1-4 resources with differing schemas and sizes x selector forms x field mappings x '
                'duplicate_to_end x batch sizes {1,2,7,1000} incl. resources of 999-2500 rows; plus appended sources '
                '(iterables, sources, load((descriptor, iterators)) with selectors) and duplicate followed by an in-place '
                'mutator; non-trivial = ran successfully with at least one row')
    rep.assumptions = ['kvfile returns keys in ascending byte order below and above its cache size']
    P.run_cases(ctx, LAYER_A, oracle, ctx.n(700, 9000))
    rng = ctx.rng('extra')
    with quiet():
        for _ in range(ctx.n(40, 400)):
            mutate_case(ctx, rng)
        for _ in range(ctx.n(150, 1500)):
            reuse_case(ctx, rng)
        for _ in range(ctx.n(150, 1500)):
            append_case(ctx, rng)
        for _ in range(ctx.n(6, 60)):
            big_case(ctx, rng)
        for _ in range(ctx.n(40, 500)):
            sequence_case(ctx, rng)
        for idx in range(ctx.n(30, 300)):
            live_load_case(ctx, rng, idx)
    from .. import pycorr
    pycorr.run(ctx)
    return ctx.finish(search=P.search_from_disagreements(ctx, oracle, LAYER_A))


def replay(payload):
    import json
    print(json.dumps(payload.get('input'), indent=1)[:3000])
    return 0
