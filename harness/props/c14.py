"""C14 — set_type / validate cast valid values and apply the error policy exactly."""
import copy
import re

import dataflows as DF
from dataflows import Flow, schema_validator
from dataflows.base.exceptions import ProcessorError
from dataflows.base.schema_validator import ValidationError
from datapackage import Resource
from tableschema.exceptions import CastError

from .. import pycorr, canon, fast, stepcorr as S  # noqa: F401
from ..common import quiet

import decimal as _dec

# lexical values (as read from text sources) and native ones (as produced by Python sources and earlier steps);
# 1 / True / 1.0 / Decimal(1) are equal in Python and are not the same value for a cast
LEX = {
    'integer': (['1', '-5', '0', '12', '007', None, 1, 0, 12], ['x', '1.5', 'one', '1e3', True, False, 1.5, _dec.Decimal('2.5')]),
    'number': (['1.5', '-2', '10', '0.25', None, 1.5, 2, 1, _dec.Decimal('0.25')], ['x', '1,5', 'nan?', '--1', True, False]),
    'boolean': (['true', 'false', 'True', 'False', None, True, False], ['x', 'maybe', '2', 1, 0, 1.0]),
    'date': (['2020-01-31', '1999-12-01', None], ['2020-13-01', 'x', '31/01/2020']),
    'year': (['2000', '1999', None], ['x', '20x0']),
}
POLICIES = ['raise', 'drop', 'ignore', 'clear', 'custom4', 'custom5']
FIELD_POOL = ['v1', 'v2', 'v.3', 'w', 'v10']


def make_handler(kind, keep_table, log):
    if kind == 'raise':
        return schema_validator.raise_exception
    if kind == 'drop':
        return schema_validator.drop
    if kind == 'ignore':
        return schema_validator.ignore
    if kind == 'clear':
        return schema_validator.clear
    if kind == 'custom4':
        def h4(res_name, row, i, e):
            log.append((i, None))
            return keep_table.get(i, 1)
        return h4

    def h5(res_name, row, i, e, field):
        log.append((i, field.name if field is not None else None))
        return keep_table.get((i, field.name if field is not None else None), '')

    def h5_default(res_name, row, i, e, field=None):
        # the same handler written so that it can also serve validate(<custom validator>), which passes no field
        return h5(res_name, row, i, e, field)
    # which of the two shapes: decided by the table (a pure function of the case)
    return h5_default if (len(keep_table) % 2 == 1 or kind == 'custom5d') else h5


def gen_case(rng):
    typ = rng.choice(list(LEX))
    good, bad = LEX[typ]
    nf = rng.randint(1, 4)
    names = rng.sample(FIELD_POOL, nf)
    pattern = rng.choice(['v.*', 'v\\d', '.*', names[0].replace('.', '\\.'), '(v1|w)', 'v1'])
    nrows = rng.choice([0, 1, 2, 4, 7])
    p_bad = rng.choice([0.0, 0.1, 0.3, 0.6])
    rows = []
    for _ in range(nrows):
        rows.append({n: (rng.choice(bad) if rng.random() < p_bad else rng.choice(good)) for n in names})
    policy = rng.choice(POLICIES)
    kind = rng.choice(['set_type', 'set_type', 'validate'])
    transform = rng.choice(['strip0', 'fill-null-good', 'fill-null-bad', 'by-field-name']) if (rng.random() < 0.35 and kind == 'set_type') else None
    return {'type': typ, 'names': names, 'pattern': pattern, 'rows': rows, 'policy': policy, 'kind': kind,
            'transform': transform, 'extra': rng.random() < 0.3}


def run_case(ctx, c, rng):
    rep = ctx.report
    names = c['names']
    resources = [{'name': 'data', 'fields': [(n, 'string') for n in names]}]
    rows = [copy.deepcopy(c['rows'])]
    if c['extra']:
        resources.append({'name': 'other', 'fields': [('v1', 'string')]})
        rows.append([{'v1': 'x'}])
    desc = canon.make_descriptor(resources)
    log = []
    keep_table = {}
    if c['policy'] == 'custom4':
        keep_table = {i: rng.choice([0, 1, '', 'yes', None]) for i in range(len(c['rows']))}
    elif c['policy'] == 'custom5':
        keep_table = {(i, n): rng.choice([0, 1, '', 'yes']) for i in range(len(c['rows'])) for n in names}
    handler = make_handler(c['policy'], keep_table, log)
    checked = [n for n in names if re.fullmatch(c['pattern'], n)] if c['kind'] == 'set_type' else list(names)

    good_v, bad_v = LEX[c['type']]

    def tr_spec(v, k):
        if c['transform'] == 'strip0':
            return v.strip('0') or '0' if isinstance(v, str) and v.isdigit() else v
        if c['transform'] == 'fill-null-good':
            return good_v[0] if v is None else v
        if c['transform'] == 'fill-null-bad':
            return bad_v[0] if v is None else v
        return (good_v[0] if k.endswith('1') else bad_v[0]) if v is None else v

    if c['transform'] == 'by-field-name':
        def tr(v, field_name):
            return tr_spec(v, field_name)
    else:
        def tr(v):
            return tr_spec(v, None)

    if c['kind'] == 'set_type':
        kw = dict(type=c['type'], on_error=handler, resources='data')
        if c['transform']:
            kw['transform'] = tr
        steps = [DF.set_type(c['pattern'], **kw)]
        target_desc = copy.deepcopy(desc['resources'][0])
        for f in target_desc['schema']['fields']:
            if f['name'] in checked:
                f['type'] = c['type']
    else:
        # validate(): the declared types are already the target types; values arrive as strings
        for f in desc['resources'][0]['schema']['fields']:
            f['type'] = c['type']
        target_desc = copy.deepcopy(desc['resources'][0])
        steps = [DF.validate(on_error=handler, resources='data')]
    incoming = [dict((k, (tr_spec(v, k) if (c['transform'] and k in checked) else v)) for k, v in r.items()) for r in c['rows']]
    # third-party outcomes: Field.cast_value for every (checked field, incoming value)
    res_obj = Resource(target_desc)
    fobj = {f.name: f for f in res_obj.schema.fields}
    cast = {}
    for n in checked:
        for r in incoming:
            v = r.get(n)
            key = (n, canon.canon_json(v))
            if key in cast:
                continue
            try:
                cast[key] = (v, True, fobj[n].cast_value(v))
            except CastError:
                cast[key] = (v, False, None)
    # real run
    err = None
    out_rows = None
    try:
        with quiet():
            res, dp, _ = Flow(canon.pkg_source(desc, rows), *steps).results(on_error=None)
        out_rows = res[0]
        other_ok = (not c['extra']) or res[1] == [{'v1': 'x'}]
    except ProcessorError as e:
        err = e.cause
    except Exception as e:  # noqa
        err = e
    case = {'kind': c['kind'], 'type': c['type'], 'pattern': c['pattern'], 'fields': names, 'checked': checked,
            'policy': c['policy'], 'rows': c['rows'], 'transform': c['transform'],
            'keep': [[str(k), canon._plain(v)] for k, v in keep_table.items()]}
    n_bad = sum(1 for r in incoming for n in checked if not cast[(n, canon.canon_json(r.get(n)))][1])
    rep.case('%s:%s' % (c['kind'], c['policy']), case, nontrivial=bool(c['rows']) and bool(checked))
    rep.hist('bad_cells', min(n_bad, 5))
    rep.hist('type', c['type'])
    if c['kind'] == 'set_type' and not checked:
        # documented assertion: no field matches
        if not (isinstance(err, AssertionError)):
            rep.fail('set_type:no-field-matched-accepted', case, repr(err))
        return None
    # ---- oracle: the property stated directly on the real outcome
    exp_rows, exp_err = spec(c['policy'], checked, incoming, cast, keep_table)
    if exp_err is not None:
        if not isinstance(err, ValidationError):
            rep.fail('%s:%s:bad-row-not-raised' % (c['kind'], c['policy']), case, {'expected_index': exp_err, 'got': repr(err)[:200],
                                                                            'rows': out_rows})
        elif err.index != exp_err or err.resource_name != 'data':
            rep.fail('%s:raise:wrong-index' % c['kind'], case, {'expected_index': exp_err, 'got': err.index})
        real_c = {'err': 'validation', 'res': 'data', 'index': getattr(err, 'index', None)}
    elif err is not None:
        rep.fail('%s:%s:unexpected-error' % (c['kind'], c['policy']), case, repr(err)[:300])
        real_c = {'err': type(err).__name__}
    else:
        want = [canon.norm_row(canon.enc_row(r)) for r in exp_rows]
        have = [canon.norm_row(canon.enc_row(r)) for r in out_rows]
        if want != have:
            sig = '%s:%s:rows' % (c['kind'], c['policy'])
            if len(have) < len(want):
                sig += '-lost'
            elif len(have) > len(want):
                sig += '-extra'
            rep.fail(sig, case, {'expected': want, 'got': have})
        if not other_ok:
            rep.fail('%s:unselected-resource-changed' % c['kind'], case, {})
        real_c = {'ok': have}
    # ---- correspondence op
    pol = c['policy'] if not c['policy'].startswith('custom') else 'custom'
    keep = []
    if c['policy'] == 'custom4':
        keep = [[i, n, bool(keep_table.get(i, 1))] for i in range(len(incoming)) for n in checked]
    elif c['policy'] == 'custom5':
        keep = [[i, n, bool(keep_table.get((i, n), ''))] for i in range(len(incoming)) for n in checked]
    op = {'op': 'validate', 'res': 'data', 'fields': checked, 'policy': pol,
          # with a transform the model gets the raw rows and the transform as a table (it applies it itself)
          'rows': [canon.enc_row(r) for r in (c['rows'] if c['transform'] else incoming)],
          'cast': [[n, canon.enc_val(v), (canon.enc_val(o) if okc else None)] for (n, _), (v, okc, o) in cast.items()],
          'keep': keep}
    if c['transform']:
        pre = {}
        for r in c['rows']:
            for n in checked:
                v = r.get(n)
                pre[(n, canon.canon_json(canon.enc_val(v)))] = [n, canon.enc_val(v), canon.enc_val(tr_spec(v, n))]
        op['pre'] = list(pre.values())
    return case, op, real_c


def spec(policy, checked, incoming, cast, keep_table):
    """expected rows / error index, straight from the property statement"""
    out = []
    for i, r in enumerate(incoming):
        nr = dict(r)
        keep = True
        for n in checked:
            v, okc, o = cast[(n, canon.canon_json(r.get(n)))]
            if okc:
                nr[n] = o
                continue
            if policy == 'raise':
                return None, i
            if policy == 'drop':
                keep = False
            elif policy == 'clear':
                nr[n] = None
            elif policy == 'custom4':
                keep = keep and bool(keep_table.get(i, 1))
            elif policy == 'custom5':
                keep = keep and bool(keep_table.get((i, n), ''))
        if keep:
            out.append(nr)
    return out, None


def row_validator_case(ctx, rng):
    """validate(field, fn) / validate(fn): custom validators with every policy"""
    rep = ctx.report
    n = rng.choice([0, 1, 3, 6])
    rows = [{'a': rng.choice([1, 2, 3, None]), 'b': 'x'} for _ in range(n)]
    policy = rng.choice(['raise', 'drop', 'ignore', 'clear'])
    handler = make_handler(policy, {}, [])
    by_field = rng.random() < 0.5

    def ok(v):
        return v is not None and v != 2
    if by_field:
        step = DF.validate('a', ok, on_error=handler)
    else:
        step = DF.validate(lambda row: ok(row.get('a')), on_error=handler)
    case = {'kind': 'validate-fn', 'by_field': by_field, 'policy': policy, 'rows': rows}
    err = None
    out = None
    try:
        with quiet():
            out = Flow(copy.deepcopy(rows), step).results(on_error=None)[0][0]
    except ProcessorError as e:
        err = e.cause
    rep.case('validate-fn:' + policy, case, nontrivial=bool(rows))
    bad = [i for i, r in enumerate(rows) if not ok(r.get('a'))]
    if policy == 'raise' and bad:
        if not isinstance(err, ValidationError) or err.index != bad[0]:
            rep.fail('validate-fn:raise:wrong-index-or-not-raised', case, repr(err))
        return
    if err is not None:
        rep.fail('validate-fn:unexpected-error', case, repr(err))
        return
    exp = rows if policy == 'ignore' else [r for i, r in enumerate(rows) if i not in bad]
    if out != exp:
        rep.fail('validate-fn:%s:rows' % policy, case, {'expected': exp, 'got': out})


def several_resources_case(ctx, rng, idx):
    """one step checks two or three resources (and may be run twice): a custom handler is asked about every offending value
    of every resource, and its answer for a row of one resource never decides about a row of another"""
    rep = ctx.report
    nres = rng.choice([2, 2, 3])
    arity = [4, 5][idx % 2]
    names = ['data%d' % k for k in range(nres)]
    tables, answers, expect = [], {}, []
    shared = rng.randrange(3)             # the offending row sits at the same index in every resource
    for k, nm in enumerate(names):
        rows = [{'v1': str(10 * k + j), 'w': 'w%d' % j} for j in range(3)]
        bad = [shared] + ([rng.randrange(3)] if rng.random() < 0.4 else [])
        for j in set(bad):
            rows[j]['v1'] = 'bad-%s-%d' % (nm, j)
        keep_first = (k + idx) % 2 == 0
        out = []
        for j, r in enumerate(rows):
            if j in bad:
                answers[(nm, j)] = keep_first if j == shared else rng.choice([True, False])
                if answers[(nm, j)]:
                    out.append(dict(r))
            else:
                out.append({'v1': int(r['v1']), 'w': r['w']})
        tables.append(rows)
        expect.append(out)
    log = []

    def h4(res_name, row, i, e):
        log.append((res_name, i))
        return answers[(res_name, i)]

    def h5(res_name, row, i, e, field):
        log.append((res_name, i))
        return answers[(res_name, i)]
    desc = canon.make_descriptor([{'name': nm, 'fields': [('v1', 'integer'), ('w', 'string')]} for nm in names])
    twice = rng.random() < 0.4
    case = {'step': 'validate(on_error=<custom %d-argument handler>)' % arity, 'resources': names, 'tables': tables,
            'answers': {'%s[%d]' % k: v for k, v in answers.items()}, 'same_step_object_run_twice': twice}
    step = DF.validate(on_error=h4 if arity == 4 else h5)
    try:
        with quiet():
            if twice:
                Flow(canon.pkg_source(desc, tables), step).results(on_error=None)
                del log[:]
            res = Flow(canon.pkg_source(desc, tables), step).results(on_error=None)[0]
    except Exception as e:  # noqa
        rep.case('several-resources', case, nontrivial=False)
        rep.fail('several-resources:raises', case, repr(e)[:300])
        return
    rep.case('several-resources', case)
    got = [[dict(r) for r in rs] for rs in res]
    if got != expect:
        rep.fail('several-resources:custom%d:rows' % arity, case, {'expected': expect, 'got': got})
    if sorted(set(log)) != sorted(answers):
        rep.fail('several-resources:custom%d:handler-not-asked-about-every-offending-row' % arity, case,
                 {'asked': sorted(set(log)), 'offending': sorted(answers)})


def run(ctx):
    rep = ctx.report
    rep.rule = ('tables of 0-7 rows x 1-4 string fields mixing valid and invalid lexical values (probability 0-0.6 per '
                'cell, several per row) x target type {integer, number, boolean, date, year} x policy {raise, drop, ignore, '
                'clear, custom 4-arg, custom 5-arg with truthy/falsy answers} x set_type (field-name regex, optional '
                'transform) / validate(); non-trivial = at least one row and one checked field; distinct by content')
    rep.assumptions = ['Field.cast_value outcomes are supplied to the model per case (third-party parameter)']
    rng = ctx.rng('main')
    pending = []
    for _ in range(ctx.n(800, 10000)):
        r = run_case(ctx, gen_case(rng), rng)
        if r:
            pending.append(r)
    with quiet():
        for _ in range(ctx.n(120, 1500)):
            row_validator_case(ctx, rng)
    rng3 = ctx.rng('several-resources')
    for idx in range(ctx.n(24, 300)):
        several_resources_case(ctx, rng3, idx)
    if ctx.model.available():
        outs = ctx.model.run([op for _, op, _ in pending])
        for (case, _op, real_c), mo in zip(pending, outs):
            if 'ok' in mo:
                mo = {'ok': [canon.norm_row(r) for r in mo['ok']]}
            rep.corr('validate', case, real_c, mo)
    else:
        rep.disagreements.append({'op': 'validate', 'case': 'driver unavailable', 'real': None, 'model': None})

    def search(disagreements):
        rng2 = ctx.rng('search')
        before = len(rep.oracle_failures)
        for _ in range(ctx.n(4000, 30000)):
            run_case(ctx, gen_case(rng2), rng2)
            if len(rep.oracle_failures) > before:
                o = rep.oracle_failures[-1]
                return {'signature': o['signature'], 'case': o['case'], 'detail': o['detail']}
        return None
    pycorr.run(ctx)
    return ctx.finish(search=search)


def replay(payload):
    import json
    print(json.dumps(payload.get('input'), indent=1)[:3000])
    return 0
