"""C15 — field-level processors change schema and rows in lockstep."""
import copy
import decimal
import functools
import re

import dataflows as DF

from .. import canon, stepcorr as S, stepprop as P
from ..common import quiet

LAYER_A = ['delete_fields', 'select_fields', 'rename_fields', 'add_field']
LAYER_B = ['find_replace', 'add_computed_field']


def expected_fields(proc, a, fields):
    """the documented order rule, computed with Python's re (independent of the model)"""
    names = [f['name'] for f in fields]
    if proc == 'delete_fields':
        pats = [re.compile(canon.anchored(a['regex'], f)) for f in a['fields']]
        return [n for n in names if not any(p.match(n) for p in pats)], {}
    if proc == 'select_fields':
        out, avail = [], list(names)
        for f in a['fields']:
            p = re.compile(canon.anchored(a['regex'], f))
            hit = [n for n in avail if p.match(n)]
            avail = [n for n in avail if n not in hit]
            out += hit
        return out, {}
    if proc == 'rename_fields':
        pats = [(re.compile(canon.anchored(a['regex'], s)), t) for s, t in a['fields'].items()]
        out, ren = [], {}
        for n in names:
            for p, t in pats:
                if p.match(n):
                    ren[n] = p.sub(t, n)
                    break
            out.append(ren.get(n, n))
        return out, ren
    if proc == 'add_field':
        return names + [a['name']], {}
    raise ValueError(proc)


def oracle(proc, a, desc, rows, real):
    out = list(P.frame_oracle(proc, a, desc, rows, real))
    if P.sel_invalid(a, desc) or 'ok' not in real:
        return out
    flags = P.selected_flags(a, desc)
    for i, (d, rw, f, got) in enumerate(zip(desc['resources'], rows, flags, real['ok'])):
        if not f:
            continue
        try:
            exp_names, ren = expected_fields(proc, a, d['schema']['fields'])
        except re.error:
            continue
        got_names = [x['name'] for x in got['fields']]
        if got_names != exp_names and len(set(exp_names)) == len(exp_names):
            out.append(('%s:field-order-or-set' % proc, {'resource': i, 'expected': exp_names, 'got': got_names}))
            continue
        if len(set(exp_names)) != len(exp_names):
            # renaming onto an existing field must be rejected (fixed defect, see known_findings.json)
            out.append(('rename_fields:target-collides-with-existing-field', {'resource': i, 'fields': exp_names}))
            continue
        types_in = {x['name']: x['type'] for x in d['schema']['fields']}
        inv = {v: k for k, v in ren.items()}
        for x in got['fields']:
            src = inv.get(x['name'], x['name'])
            if src in types_in and types_in[src] != x['type']:
                out.append(('%s:type-changed' % proc, {'resource': i, 'field': x['name']}))
        if len(got['rows']) != len(rw):
            out.append(('%s:row-count' % proc, {'resource': i}))
            continue
        for r_in, r_out in zip(rw, got['rows']):
            keys = [k for k, _ in r_out]
            if sorted(keys) != sorted(exp_names):
                out.append(('%s:lockstep-broken' % proc, {'resource': i, 'fields': exp_names, 'row_keys': keys}))
                break
            vals = dict((k, canon.norm_val(v)) for k, v in r_out)
            bad = False
            for k in exp_names:
                src = inv.get(k, k)
                if proc == 'add_field' and k == a['name']:
                    if vals[k] != canon.norm_val(canon.enc_val(a['default'])):
                        bad = True
                elif src in r_in and vals[k] != canon.norm_val(canon.enc_val(r_in[src])):
                    bad = True
            if bad:
                out.append(('%s:value-changed' % proc, {'resource': i, 'in': canon._plain(r_in), 'out': r_out}))
                break
    return out


# ---- add_computed_field / find_replace : specification in Python, real code only

def spec_computed(op, values, with_, row):
    if op == 'sum':
        return sum(values)
    if op == 'avg':
        return sum(values) / len(values)
    if op == 'max':
        return max(values)
    if op == 'min':
        return min(values)
    if op == 'multiply':
        return functools.reduce(lambda x, y: x * y, values)
    if op == 'constant':
        return with_
    if op == 'join':
        return with_.join(str(x) for x in values)
    if op == 'format':
        return with_.format(**row)
    raise ValueError(op)


def computed_case(ctx, rng):
    rep = ctx.report
    nres = rng.randint(1, 3)
    names = rng.sample(S.RES_NAMES, nres)
    pool = ['x', 'y', 'z', 'a b', 'n.1']
    resources, rows = [], []
    for n in names:
        fs = [(f, 'integer') for f in rng.sample(pool, rng.randint(2, 4))]
        resources.append({'name': n, 'fields': fs})
        rows.append([{f: (None if rng.random() < 0.2 else rng.choice([0, 1, 2, -3, 10, 7])) for f, _ in fs}
                     for _ in range(rng.choice([0, 1, 3, 5]))])
    desc = canon.make_descriptor(resources)
    sel = S.gen_sel(rng, names, allow_bad=False)
    op = rng.choice(['sum', 'avg', 'max', 'min', 'multiply', 'constant', 'join', 'format', 'callable'])
    target = 'res__'
    flags = [S.py_selects(sel, names, i, n) for i, n in enumerate(names)]
    common_fields = None
    for r, f in zip(resources, flags):
        if f:
            s = {x for x, _ in r['fields']}
            common_fields = s if common_fields is None else (common_fields & s)
    srcs = sorted(common_fields or {'x'})[:rng.randint(1, 3)]
    with_ = {'join': rng.choice(['-', '', ', ']), 'constant': rng.choice(['c', 0, False, 7, '', decimal.Decimal('0'), 0.0]),
             'format': '{' + srcs[0] + '}/' + '{' + srcs[-1] + '}'}.get(op, '')
    if op == 'callable':
        def fn(row):
            return sum(v for v in (row.get(s) for s in srcs) if v is not None) + 1
        step = DF.add_computed_field(target=dict(name=target, type='integer'), operation=fn, resources=sel)
    else:
        step = DF.add_computed_field(target=target, operation=op, source=list(srcs), with_=with_, resources=sel)
    case = {'proc': 'add_computed_field', 'op': op, 'source': srcs, 'with': with_, 'sel': canon._plain(sel), 'desc': desc,
            'rows': canon._plain(rows)}
    real = S.run_real([step], desc, rows)
    rep.case('real:add_computed_field:' + op, case, nontrivial='ok' in real and any(rows))
    # expected
    expect_err = False
    exp_rows = []
    for rw, f in zip(rows, flags):
        if not f:
            exp_rows.append(None)
            continue
        cur = []
        for r in rw:
            vals = [r.get(s) for s in srcs if r.get(s) is not None]
            try:
                if op == 'callable':
                    v = sum(vals) + 1
                else:
                    v = spec_computed(op, vals, with_, r)
            except Exception:
                expect_err = True
                v = None
            nr = dict(r)
            nr[target] = v
            cur.append(nr)
        exp_rows.append(cur)
    if expect_err:
        if 'ok' in real:
            rep.fail('add_computed_field:%s:undefined-on-empty-accepted' % op, case, real)
        return
    if 'ok' not in real:
        rep.fail('add_computed_field:%s:unexpected-error' % op, case, real)
        return
    for sig, detail in P.frame_oracle('add_computed_field', {'sel': sel}, desc, rows, real):
        rep.fail(sig, case, detail)
    for i, (e, got, f) in enumerate(zip(exp_rows, real['ok'], flags)):
        if not f:
            continue
        gn = [x['name'] for x in got['fields']]
        en = [x for x, _ in resources[i]['fields']] + [target]
        if gn != en:
            rep.fail('add_computed_field:new-field-not-appended', case, {'expected': en, 'got': gn})
        want = [canon.norm_row(canon.enc_row(r)) for r in e]
        have = [canon.norm_row(r) for r in got['rows']]
        if want != have:
            rep.fail('add_computed_field:%s:value' % op, case, {'expected': want[:5], 'got': have[:5]})


def find_replace_case(ctx, rng):
    rep = ctx.report
    names = rng.sample(S.RES_NAMES, rng.randint(1, 3))
    pool = ['s', 't', 'a.b', 'u v']
    resources, rows = [], []
    for n in names:
        fs = [(f, 'string') for f in pool[:rng.randint(2, 4)]]
        resources.append({'name': n, 'fields': fs})
        rows.append([{f: rng.choice(['abc', 'a.c', 'xyz', '2020-01', 'aaa', '', None, 'None']) for f, _ in fs}
                     for _ in range(rng.choice([0, 1, 3]))])
    desc = canon.make_descriptor(resources)
    sel = S.gen_sel(rng, names, allow_bad=False)
    pats = [{'find': rng.choice(['a', 'a.', '(\\d+)-(\\d+)', 'x|y', '^a', 'c$']),
             'replace': rng.choice(['Q', '', '\\2/\\1' if False else 'Z'])} for _ in range(rng.randint(1, 3))]
    for p in pats:
        if p['find'] == '(\\d+)-(\\d+)':
            p['replace'] = '\\2/\\1'
    fields = [{'name': rng.choice(['s', 't']), 'patterns': pats}]
    case = {'proc': 'find_replace', 'fields': fields, 'sel': canon._plain(sel), 'desc': desc, 'rows': rows}
    real = S.run_real([DF.find_replace(copy.deepcopy(fields), resources=sel)], desc, rows)
    rep.case('real:find_replace', case, nontrivial='ok' in real and any(rows))
    if 'ok' not in real:
        rep.fail('find_replace:unexpected-error', case, real)
        return
    flags = [S.py_selects(sel, names, i, n) for i, n in enumerate(names)]
    for sig, detail in P.frame_oracle('find_replace', {'sel': sel}, desc, rows, real):
        rep.fail(sig, case, detail)
    for i, (rw, got, f) in enumerate(zip(rows, real['ok'], flags)):
        if not f:
            continue
        exp = []
        for r in rw:
            nr = dict(r)
            for fld in fields:
                for p in fld['patterns']:
                    if nr[fld['name']] is not None:     # a null has no text to search: it stays null
                        nr[fld['name']] = re.sub(p['find'], p['replace'], str(nr[fld['name']]))
            exp.append(nr)
        want = [canon.norm_row(canon.enc_row(r)) for r in exp]
        have = [canon.norm_row(r) for r in got['rows']]
        if want != have:
            nulls = any(r.get(fld['name']) is None for r in rw for fld in fields)
            rep.fail('find_replace:value' + (':null-becomes-text' if nulls else ''), case, {'expected': want[:5], 'got': have[:5]})
        if [x['name'] for x in got['fields']] != [x for x, _ in resources[i]['fields']]:
            rep.fail('find_replace:schema-changed', case, {})


def probe(finding):
    sig = finding['signature']
    if sig == 'rename_fields:target-collides-with-existing-field':
        desc = canon.make_descriptor([{'name': 'a', 'fields': [('x', 'integer'), ('y', 'integer')]}])
        real = S.run_real([DF.rename_fields({'x': 'y'}, regex=False)], desc, [[{'x': 1, 'y': 2}]])
        if 'ok' not in real:
            return False
        names = [f['name'] for f in real['ok'][0]['fields']]
        return len(set(names)) != len(names)
    raise ValueError('no probe for ' + sig)


def gen_hook(rng, proc, desc, rows, a):
    # main stream stays inside the guard of C15_rename_*: targets are fresh names (n0, n1, y_…)
    return desc, rows, a


def run(ctx):
    rep = ctx.report
    rep.rule = ('field-level processors x packages whose field names contain regex metacharacters and are prefixes of one '
                'another x regex on/off x selector forms; add_computed_field: every operation incl. callable with nulls; '
                'non-trivial = ran successfully on a non-empty package; distinct by content')
    rep.assumptions = ['Python re as oracle table', 'format mini-language limited to {name} placeholders']
    P.run_cases(ctx, LAYER_A, oracle, ctx.n(1000, 12000), gen_hook=gen_hook)
    # find_replace / add_computed_field (exact arithmetic and text operations) against the model
    P.run_cases(ctx, LAYER_B, lambda proc, a, desc, rows, real: P.frame_oracle(proc, a, desc, rows, real),
                ctx.n(600, 8000), salt='layer-b')
    rng = ctx.rng('computed')
    with quiet():
        for _ in range(ctx.n(250, 3000)):
            computed_case(ctx, rng)
        for _ in range(ctx.n(150, 2000)):
            find_replace_case(ctx, rng)
    # probe stream: the excluded region (rename onto an existing untouched field)
    rng = ctx.rng('probe')
    pending = []
    for _ in range(ctx.n(60, 600)):
        desc, rows = S.gen_pkg(rng)
        a = S.PROCS['rename_fields'].gen(rng, desc, rows, collide=True)
        real = S.run_real([S.PROCS['rename_fields'].real(copy.deepcopy(a))], desc, rows)
        case = {'proc': 'rename_fields', 'args': S.jsonable_args(a), 'desc': desc, 'rows': canon._plain(rows)}
        rep.case('probe:rename-collide', case, nontrivial='ok' in real)
        for sig, detail in oracle('rename_fields', a, desc, rows, real):
            rep.fail(sig, case, detail)
    from .. import pycorr
    pycorr.run(ctx)
    return ctx.finish(probe=probe, search=P.search_from_disagreements(ctx, oracle, LAYER_A))


def replay(payload):
    import json
    print(json.dumps(payload.get('input'), indent=1)[:3000])
    return 0
