"""C10 — resource selectors mean the same thing in every processor."""
import copy

import dataflows as DF

from .. import pycorr, canon, stepcorr as S, stepprop as P
from ..common import quiet

LAYER_A = ['delete_fields', 'select_fields', 'rename_fields', 'add_field', 'filter_rows', 'deduplicate',
           'delete_resource', 'set_primary_key', 'update_resource', 'unpivot']
# processors whose effect is visible on every selected resource: changed set must equal selected set
VISIBLE = {'add_field', 'update_resource', 'delete_resource'}


def _noop(row):
    pass


def _to_text(v):
    return None if v is None else 'T:%s' % (v,)


def real_only_steps(sel):
    """selector-taking processors outside Layer A, configured so that their action cannot fail on
    arbitrary resources; (name, step factory, visible_on_selected)"""
    return [
        ('validate', lambda: DF.validate(resources=sel), False),
        ('sort_rows', lambda: DF.sort_rows(lambda r: 'k', resources=sel), False),
        ('add_computed_field', lambda: DF.add_computed_field(target='cst__', operation='constant', with_='x',
                                                             resources=sel), True),
        ('find_replace', lambda: DF.find_replace([], resources=sel), False),
        ('update_schema', lambda: DF.update_schema(sel, missingValues=['', 'x']), False),
        ('set_type', lambda: DF.set_type('.*', resources=sel, description='d'), True),
        ('printer', lambda: DF.printer(resources=sel), False),
        ('set_type_transform', lambda: DF.set_type('.*', resources=sel, type='string', transform=_to_text), False),
    ]


def changed_flags(desc, rows, real):
    inp = canon.norm_pkg(canon.enc_pkg(desc, rows))
    out = {r['name']: r for r in canon.norm_pkg(real['ok'])}
    res = []
    for r in inp:
        o = out.get(r['name'])
        res.append(o is None or o != r)
    return res


def oracle(proc, a, desc, rows, real):
    out = list(P.frame_oracle(proc, a, desc, rows, real))
    if proc in VISIBLE and 'ok' in real and not P.sel_invalid(a, desc):
        flags = P.selected_flags(a, desc)
        if proc == 'update_resource':
            ch = [any(p[0] == 'title' for p in r['props']) for r in real['ok']]
        elif proc == 'add_field':
            ch = [any(f['name'] == a['name'] for f in r['fields']) for r in real['ok']]
            # resources that already had the field do not tell; skip them
            had = [any(f['name'] == a['name'] for f in d['schema']['fields']) for d in desc['resources']]
            flags = [f or h for f, h in zip(flags, had)]
        else:
            names = {r['name'] for r in real['ok']}
            ch = [d['name'] not in names for d in desc['resources']]
        if ch != flags:
            out.append(('selects:%s:acted-set-differs' % proc, {'selected_by_spec': flags, 'acted_on': ch}))
    return out


def real_only_case(ctx, rng):
    rep = ctx.report
    desc, rows = S.gen_pkg(rng)
    sel = S.gen_sel(rng, S.res_names(desc))
    steps = real_only_steps(sel)
    name, mk, visible = steps[rng.randrange(len(steps))]
    a = {'sel': sel}
    try:
        step = mk()
    except Exception as e:  # constructor rejected the arguments
        rep.case('real:' + name, None, key=[name, repr(sel)], nontrivial=False)
        return
    real = S.run_real([step], desc, rows)
    case = {'proc': name, 'args': S.jsonable_args(a), 'desc': desc, 'rows': canon._plain(rows)}
    rep.case('real:' + name, case, nontrivial='ok' in real)
    rep.hist('outcome', 'ok' if 'ok' in real else real['err'])
    rep.hist('sel_form', type(sel).__name__)
    if P.sel_invalid(a, desc):
        if 'ok' in real and name not in ('printer',):
            rep.fail('frame:%s:bad-index-accepted' % name, case, real)
        return
    flags = P.selected_flags(a, desc)
    if 'ok' not in real:
        # a selector-taking processor must not fail merely because of the selector form
        if name.startswith('set_type') and not any(flags):
            return  # documented assertion: no field found
        sig = 'frame:%s:%s-selector-raises' % (name, type(sel).__name__)
        rep.fail(sig, case, real)
        return
    for sig, detail in P.frame_oracle(name, a, desc, rows, real):
        rep.fail(sig, case, detail)
    # the same step object on another package (one more resource in front and one behind): a selector is resolved
    # against the package at hand, nothing of the earlier run may linger
    if rng.random() < 0.5:
        extra_f = canon.make_descriptor([{'name': 'zz-front', 'fields': [('q', 'integer')]}])['resources'][0]
        extra_b = canon.make_descriptor([{'name': 'zz-back', 'fields': [('q', 'integer')]}])['resources'][0]
        desc2 = {'resources': [extra_f] + copy.deepcopy(desc['resources']) + [extra_b]}
        rows2 = [[{'q': 1}]] + copy.deepcopy(rows) + [[{'q': 2}]]
        try:
            fresh_step = mk()
        except Exception:  # noqa
            fresh_step = None
        if fresh_step is not None:
            reused = S.run_real([step], desc2, rows2)
            fresh = S.run_real([fresh_step], desc2, rows2)
            if S.norm_result(reused) != S.norm_result(fresh):
                rep.fail('reuse:%s:state-of-an-earlier-run-lingers' % name, case,
                         {'reused': str(S.norm_result(reused))[:500], 'fresh': str(S.norm_result(fresh))[:500]})
    if visible:
        if name == 'add_computed_field':
            ch = [any(f['name'] == 'cst__' for f in r['fields']) for r in real['ok']]
        else:
            ch = changed_flags(desc, rows, real)
        if ch != flags:
            rep.fail('selects:%s:acted-set-differs' % name, case, {'selected_by_spec': flags, 'acted_on': ch})


def two_step_case(ctx, rng, tick=None):
    """frame rule across steps: an earlier step acts on all resources, a later one on a selection; whatever the
    later one does, the resources it does not select leave the flow as they left the earlier step"""
    rep = ctx.report
    desc, rows = S.gen_pkg(rng)
    if len(desc['resources']) < 2:
        desc, rows = S.gen_pkg(rng)
    sel = S.gen_sel(rng, S.res_names(desc), allow_bad=False)
    a = {'sel': sel}
    firsts = {
        'add_field': lambda: DF.add_field('zz_new', 'string', 'v', title='t'),
        'add_computed_field': lambda: DF.add_computed_field([{'target': {'name': 'zz_new', 'type': 'string'},
                                                               'operation': 'constant', 'with': 'v'}]),
        'add_computed_field_str': lambda: DF.add_computed_field(target='zz_new', operation='constant', with_='v'),
        'unpivot': lambda: DF.unpivot([{'name': 'no-such-field-(\\d+)', 'keys': {'zz_k': '\\1'}}],
                                      [{'name': 'zz_k', 'type': 'string'}], {'name': 'zz_new', 'type': 'any'}),
        'set_type': lambda: DF.set_type('.*', description='d'),
        'update_schema': lambda: DF.update_schema(None, missingValues=['', 'x']),
        'duplicate': lambda: DF.duplicate(),
        'duplicate_last': lambda: DF.duplicate(source=desc['resources'][-1]['name'], target_name='zz-dup', target_path='zz-dup.csv',
                                               duplicate_to_end=True),
    }
    seconds = {
        'rename_fields': lambda: DF.rename_fields({'zz_new': 'zz_ren'}, resources=sel),
        'set_type': lambda: DF.set_type('zz_.*', resources=sel, type='any', title='changed'),
        'delete_fields': lambda: DF.delete_fields(['zz_new'], resources=sel),
        'update_schema': lambda: DF.update_schema(sel, missingValues=['', 'y']),
        'update_resource': lambda: DF.update_resource(sel, title='changed'),
        'add_field': lambda: DF.add_field('zz_2', 'integer', 1, resources=sel),
        'select_fields': lambda: DF.select_fields(['zz_.*'], resources=sel),
        'delete_resource': lambda: DF.delete_resource(sel),
        'filter_rows': lambda: DF.filter_rows(lambda r: False, resources=sel),
    }
    if tick is None:
        f1 = rng.choice(sorted(firsts))
        f2 = rng.choice(sorted(seconds))
    else:
        # every (first, second) pair in turn
        k1, k2 = sorted(firsts), sorted(seconds)
        f1 = k1[tick % len(k1)]
        f2 = k2[(tick // len(k1)) % len(k2)]
    case = {'first': f1, 'second': f2, 'args': S.jsonable_args(a), 'desc': desc, 'rows': canon._plain(rows)}
    before = S.run_real([firsts[f1]()], desc, rows)
    after = S.run_real([firsts[f1](), seconds[f2]()], desc, rows)
    ok = 'ok' in before and 'ok' in after
    rep.case('two-step:%s' % f2, case, nontrivial=ok)
    rep.hist('two_step', '%s>%s:%s' % (f1, f2, 'ok' if ok else 'rejected'))
    if not ok:
        return
    names_before = [r['name'] for r in before['ok']]
    flags = [S.py_selects(sel, names_before, i, n) for i, n in enumerate(names_before)]
    b = {r['name']: r for r in canon.norm_pkg(before['ok'])}
    aft = {r['name']: r for r in canon.norm_pkg(after['ok'])}
    for n, f in zip(names_before, flags):
        if not f and aft.get(n) != b[n]:
            rep.fail('frame:two-step:%s-after-%s:non-selected-resource-changed' % (f2, f1), case,
                     {'resource': n, 'after_first': b[n], 'after_both': aft.get(n)})
            return


def probe(finding):
    """re-run the canonical input of a listed finding; True = still fails"""
    sig = finding['signature']
    if sig == 'frame:printer:int-selector-raises':
        desc = canon.make_descriptor([{'name': 'a', 'fields': [('x', 'integer')]}])
        real = S.run_real([DF.printer(resources=0)], desc, [[{'x': 1}]])
        return 'ok' not in real
    raise ValueError('no probe for ' + sig)


def run(ctx):
    rep = ctx.report
    rep.rule = ('every selector-taking processor x selector form (None / regex incl. top-level alternation, prefixes, '
                'metacharacters / list / int incl. negative and out of range) x packages of 1-4 resources from '
                '{a, ab, a.b, a-b, b, ba, res_1, res_10}; non-trivial = the step ran successfully; distinct by content')
    rep.assumptions = ['Python re enters the model as an oracle table', 'names are unique within a package']
    P.run_cases(ctx, LAYER_A, oracle, ctx.n(1000, 15000))

    def meta_names(rng, proc, desc, rows, a):
        """resource names that contain regular-expression metacharacters, and selectors spelled like such a name: as a
        regular expression the text 'a+b' matches 'ab' and 'aab', not the resource called 'a+b'"""
        pool = ['a+b', 'a(1)', 'x|y', 'a*', 'a[b]', 'ab?', 'a.b', '^a']
        names = S.res_names(desc)
        for i in rng.sample(range(len(names)), rng.randint(1, min(2, len(names)))):
            new = rng.choice([n for n in pool if n not in S.res_names(desc)])
            desc['resources'][i]['name'] = new
            desc['resources'][i]['path'] = 'r%d.csv' % i
        a = S.PROCS[proc].gen(rng, desc, rows)
        if 'sel' in a and rng.random() < 0.6:
            a['sel'] = rng.choice(S.res_names(desc) + ['a+b', 'a(1)', 'x|y', 'a*', 'ab?'])
        return desc, rows, a
    P.run_cases(ctx, LAYER_A, oracle, ctx.n(400, 5000), salt='meta-names', gen_hook=meta_names)
    rng = ctx.rng('real-only')
    with quiet():
        for _ in range(ctx.n(500, 6000)):
            real_only_case(ctx, rng)
        rng3 = ctx.rng('two-step')
        for t in range(ctx.n(400, 4000)):
            two_step_case(ctx, rng3, tick=t)
    pycorr.run(ctx)
    return ctx.finish(probe=probe, search=P.search_from_disagreements(ctx, oracle, LAYER_A))


def replay(payload):
    import json
    print(json.dumps(payload.get('input'), indent=1)[:3000])
    return 0
