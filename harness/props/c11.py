"""C11 — join computes the relational join with the documented aggregates."""
import collections
import copy
import itertools
import importlib
import json
import statistics

import dataflows as DF
from dataflows import Flow

from .. import pycorr, canon, fast, stepcorr as S  # noqa: F401
from ..common import quiet

NUM_AGGS = ['sum', 'avg', 'median', 'max', 'min']
ANY_AGGS = ['first', 'last', 'count', 'any', 'set', 'array']
STR_AGGS = ['counters', 'max', 'min', 'first', 'last', 'any', 'set', 'array', 'count']


def key_spec(rng):
    k = rng.choice(['list1', 'list2', 'fmt', 'rownum'])
    if k == 'list1':
        return ['k'], [['field', 'k']]
    if k == 'list2':
        return ['k', 'g'], [['field', 'k'], ['lit', ':'], ['field', 'g']]
    if k == 'fmt':
        return '{g}/{k}', [['field', 'g'], ['lit', '/'], ['field', 'k']]
    return '{#}', [['rownum', '']]


def gen_rows(rng, n, kind):
    rows = []
    for _ in range(n):
        rows.append({'k': rng.choice([1, 2, 3, None, 10]), 'g': rng.choice(['a', 'b', 'a:b', None]),
                     'x': rng.choice([None, 0, 1, 2, 5, -3, 7]), 's': rng.choice([None, 'p', 'q', 'pq', 'r'])})
    return rows


def spec_agg(agg, rows, src):
    """the documented aggregate over the matching source rows (non-null values of `src`)"""
    vals = [r.get(src) for r in rows if r.get(src) is not None]
    if agg == 'count':
        return len(rows) if rows else None
    if agg == 'array':
        return list(vals)
    if agg == 'set':
        return ('set', sorted(set(vals), key=repr))
    if agg == 'counters':
        return sorted([list(t) for t in collections.Counter(vals).most_common()], key=lambda t: (-t[1], repr(t[0])))
    if not vals:
        return None
    if agg == 'sum':
        return sum(vals) if len(vals) > 1 else vals[0]
    if agg == 'avg':
        return sum(vals) / len(vals)
    if agg == 'median':
        s = sorted(vals)
        m = len(s) // 2
        return s[m] if len(s) % 2 else (s[m - 1] + s[m]) / 2
    if agg == 'max':
        return max(vals)
    if agg == 'min':
        return min(vals)
    if agg == 'first':
        return vals[0]
    if agg in ('last', 'any'):
        return vals[-1]
    raise ValueError(agg)


def norm_cell(v, agg=None):
    if isinstance(v, tuple) and v and v[0] == 'set':
        return v
    if agg == 'set' and isinstance(v, list):
        return ('set', sorted(set(v), key=repr))
    if agg == 'counters' and isinstance(v, list):
        # ties of most_common() have no specified order (the state passes through the key/value file)
        return sorted([list(t) for t in v], key=lambda t: (-t[1], repr(t[0])))
    return v


def render(spec, row, rownum):
    if isinstance(spec, list):
        spec = ':'.join('{%s}' % k for k in spec)
    return spec.format(**{**row, '#': rownum})


def av_to_py(av):
    if 'v' in av:
        return dec_val(av['v'])
    if 'list' in av:
        return [dec_val(x) for x in av['list']]
    if 'quot' in av:
        return int(av['quot'][0]) / int(av['quot'][1])
    if 'half' in av:
        return (dec_val(av['half'][0]) + dec_val(av['half'][1])) / 2
    if 'counts' in av:
        return [[dec_val(c[0]), c[1]] for c in av['counts']]
    raise ValueError(av)


def dec_val(e):
    t = e['t']
    if t == 'null':
        return None
    if t == 'bool':
        return e['v']
    if t == 'int':
        return int(e['v'])
    if t == 'str':
        return e['v']
    raise ValueError(e)


def join_case(ctx, rng, pending, big=False):
    rep = ctx.report
    src_spec, src_segs = key_spec(rng)
    mode = rng.choice(['inner', 'half-outer', 'full-outer'])
    dedup = rng.random() < 0.15
    if dedup:
        tgt_spec, tgt_segs = None, None
    elif src_spec == '{#}':
        tgt_spec, tgt_segs = '{#}', [['rownum', '']]
        if mode == 'full-outer':
            # full-outer copies the source key *fields* into the row: with the row number as key that is a
            # pseudo-field '#' (recorded under C02, not an aggregate question)
            mode = 'half-outer'
    else:
        tgt_spec, tgt_segs = (src_spec, src_segs) if rng.random() < 0.7 else (['k'], [['field', 'k']]) if len(src_segs) == 1 else (src_spec, src_segs)
    ns = rng.choice([0, 1, 3, 8, 12]) if not big else 10240 + 50
    nt = rng.choice([0, 1, 4, 9, 12]) if not big else 7
    source = gen_rows(rng, ns, 's') or [{'k': 1, 'g': 'a', 'x': 1, 's': 'p'}]
    target = gen_rows(rng, nt, 't') or [{'k': 1, 'g': 'a', 'x': 1, 's': 'p'}]
    if big:
        source = [{'k': i, 'g': 'a', 'x': i % 5, 's': 'p'} for i in range(ns)]
        target = [{'k': rng.choice([0, 5, 10239, 10250, 99999]), 'g': 'a', 'x': 0, 's': 'q'} for _ in range(nt)]
    fields, fspecs = {}, []
    for i in range(rng.randint(1, 3)):
        if rng.random() < 0.5:
            agg, src = rng.choice(NUM_AGGS + ANY_AGGS), 'x'
        else:
            agg, src = rng.choice(STR_AGGS), 's'
        name = 'o%d_%s' % (i, agg)
        fields[name] = {'name': src, 'aggregate': agg}
        fspecs.append({'target': name, 'source': src, 'agg': agg})
    source_delete = rng.random() < 0.5
    case = {'src_key': src_spec, 'tgt_key': tgt_spec, 'mode': mode, 'fields': fspecs, 'source_delete': source_delete,
            'source': canon._plain(source)[:40], 'target': canon._plain(target)[:40], 'n_source': len(source)}
    kw = dict(mode=mode, source_delete=source_delete)
    try:
        with quiet():
            steps = [copy.deepcopy(source), copy.deepcopy(target)]
            if dedup:
                steps.append(DF.join_with_self('res_1', src_spec, copy.deepcopy(fields)))
            else:
                steps.append(DF.join('res_1', src_spec, 'res_2', tgt_spec, copy.deepcopy(fields), **kw))
            res, dp, _ = Flow(*steps).results(on_error=None)
    except Exception as e:  # noqa
        rep.case('join', case, nontrivial=False)
        rep.fail('join-raises', case, repr(e)[:300])
        return
    rep.case('join:' + ('dedup' if dedup else mode), case, nontrivial=len(source) > 1 and len(target) > 0)
    rep.hist('mode', 'dedup' if dedup else mode)
    for f in fspecs:
        rep.hist('aggregator', f['agg'])
    names = [r['name'] for r in dp.descriptor['resources']]
    by_key = collections.OrderedDict()
    for i, r in enumerate(source, 1):
        by_key.setdefault(render(src_spec, r, i), []).append(r)
    if dedup:
        out = res[names.index('res_1')]
        want = {}
        for k, ms in by_key.items():
            want[k] = {f['target']: norm_cell(spec_agg(f['agg'], ms, f['source'])) for f in fspecs}
        got = [{f['target']: norm_cell(r.get(f['target']), f['agg']) for f in fspecs} for r in out]
        if sorted(map(repr, got)) != sorted(map(repr, want.values())):
            rep.fail('dedup:rows', case, {'expected': list(want.values()), 'got': got})
        pending.append((case, op_for(fspecs, mode, src_segs, None, source, target), ('dedup', got)))
        return
    # source kept or deleted
    if source_delete and 'res_1' in names:
        rep.fail('source-not-deleted', case, names)
    if not source_delete:
        if 'res_1' not in names or [canon.norm_row(canon.enc_row(r)) for r in res[names.index('res_1')]] != \
                [canon.norm_row(canon.enc_row(r)) for r in source]:
            rep.fail('source-changed-or-missing', case, names)
    out = res[names.index('res_2')]
    # expected target part
    want_rows, used = [], set()
    for i, r in enumerate(target, 1):
        k = render(tgt_spec, r, i)
        ms = by_key.get(k)
        if ms:
            used.add(k)
            nr = dict(r)
            for f in fspecs:
                nr[f['target']] = norm_cell(spec_agg(f['agg'], ms, f['source']))
            want_rows.append(nr)
        elif mode != 'inner':
            nr = dict(r)
            for f in fspecs:
                nr[f['target']] = r.get(f['target'])
            want_rows.append(nr)
    got_rows = [dict((k, norm_cell(v, next((f['agg'] for f in fspecs if f['target'] == k), None))) for k, v in r.items())
                for r in out]
    head, tail = got_rows[:len(want_rows)], got_rows[len(want_rows):]
    if head != want_rows:
        sig = 'target-rows:%s' % mode
        bad = next((f['agg'] for f in fspecs for a, b in zip(head, want_rows) if a.get(f['target']) != b.get(f['target'])), None)
        if bad:
            sig = 'aggregate:%s' % bad
        rep.fail(sig, case, {'expected': canon._plain(want_rows)[:10], 'got': canon._plain(head)[:10]})
    want_tail = []
    if mode == 'full-outer':
        for k, ms in by_key.items():
            if k not in used:
                want_tail.append({f['target']: norm_cell(spec_agg(f['agg'], ms, f['source'])) for f in fspecs})
    got_tail = [{f['target']: r.get(f['target']) for f in fspecs} for r in tail]
    if sorted(map(repr, got_tail)) != sorted(map(repr, want_tail)):
        rep.fail('unmatched-rows:%s' % mode, case, {'expected': canon._plain(want_tail)[:10], 'got': canon._plain(got_tail)[:10]})
    if not big:
        pending.append((case, op_for(fspecs, mode, src_segs, tgt_segs, source, target), ('rows', head, got_tail)))


def op_for(fspecs, mode, src_segs, tgt_segs, source, target):
    op = {'op': 'join', 'fields': fspecs, 'mode': mode, 'src_key': src_segs, 'source': [canon.enc_row(r) for r in source],
          'target': [canon.enc_row(r) for r in target]}
    if tgt_segs is not None:
        op['tgt_key'] = tgt_segs
    return op


def model_view(mo, fspecs, real):
    aggs = {f['target']: f['agg'] for f in fspecs}
    if real[0] == 'dedup':
        rows = [{k: norm_cell(av_to_py(av), aggs[k]) for k, av in e['extra']} for e in mo['dedup']]
        return ('dedup', sorted(map(repr, rows)))
    rows = []
    for o in mo['rows']:
        r = {k: dec_val(v) for k, v in o['base']}
        for k, av in o['extra']:
            r[k] = norm_cell(av_to_py(av), aggs[k])
        rows.append(r)
    tail = [{k: norm_cell(av_to_py(av), aggs[k]) for k, av in e['extra']} for e in mo['unmatched']]
    return ('rows', list(map(repr, rows)), sorted(map(repr, tail)))


def real_view(real):
    if real[0] == 'dedup':
        return ('dedup', sorted(map(repr, real[1])))
    return ('rows', list(map(repr, real[1])), sorted(map(repr, real[2])))


def exhaustive_aggregators(ctx, pending):
    """every aggregator x every list of up to 3 values over a small domain (validation of the model, and a
    failing-input search; the theorems are what covers all lists)"""
    rep = ctx.report
    dom = {'x': [None, 0, 1, 2, -1], 's': [None, 'p', 'q']}
    for agg in NUM_AGGS + ANY_AGGS + ['counters']:
        src = 's' if agg == 'counters' else 'x'
        for n in range(0, 4 if (not ctx.quick or agg in ('max', 'min', 'sum', 'first', 'last')) else 3):
            for vals in itertools.product(dom[src], repeat=n):
                source = [{'k': 1, 'g': 'a', 'x': None, 's': None, src: v} for v in vals] or [{'k': 2, 'g': 'a', 'x': 1, 's': 'p'}]
                target = [{'k': 1, 'g': 'a', 'x': 0, 's': 'z'}]
                fspecs = [{'target': 'out', 'source': src, 'agg': agg}]
                case = {'aggregator': agg, 'values': list(vals)}
                try:
                    with quiet():
                        res = Flow(copy.deepcopy(source), copy.deepcopy(target),
                                   DF.join('res_1', ['k'], 'res_2', ['k'], {'out': {'name': src, 'aggregate': agg}}))\
                            .results(on_error=None)[0]
                except Exception as e:  # noqa
                    rep.case('agg:' + agg, case, key=[agg, list(vals)], nontrivial=False)
                    rep.fail('aggregate:%s:raises' % agg, case, repr(e)[:300])
                    continue
                got = norm_cell(res[0][0].get('out'), agg)
                ms = [r for r in source if r['k'] == 1]
                want = norm_cell(spec_agg(agg, ms, src)) if ms else None
                rep.case('agg:' + agg, case, key=[agg, list(vals)], nontrivial=len(vals) > 0)
                if got != want:
                    rep.fail('aggregate:%s' % agg, case, {'expected': canon._plain(want), 'got': canon._plain(got)})
                pending.append((case, op_for(fspecs, 'half-outer', [['field', 'k']], [['field', 'k']], source, target),
                                ('rows', [dict(target[0], out=got)], [])))


def agg_direct(ctx, n, rng):
    """the aggregator table itself (func folded over the non-null values, then finaliser) against the documented
    aggregate, on value lists longer than the exhaustive sweep reaches; returns the first failure"""
    rep = ctx.report
    J = importlib.import_module('dataflows.processors.join')
    first = None
    for _ in range(n):
        agg = rng.choice(NUM_AGGS + ANY_AGGS + ['counters'])
        kind = 'x' if agg in NUM_AGGS else rng.choice(['x', 's'])
        if agg == 'counters':
            kind = 's'
        pool = [0, 1, 2, 5, -3, 7, 10, -8, 100] if kind == 'x' else ['p', 'q', 'pq', 'r', 'a', 'B']
        vals = [rng.choice(pool) for _ in range(rng.choice([1, 2, 3, 4, 5, 6, 7, 8, 9, 12]))]
        case = {'aggregator': agg, 'values': vals, 'direct': True}
        try:
            state = None
            for v in vals:
                state = J.AGGREGATORS[agg].func(state, 1 if agg == 'count' else v)
            got = norm_cell(J.AGGREGATORS[agg].finaliser(state), agg)
        except Exception as e:  # noqa
            rep.case('agg-direct:' + agg, case, nontrivial=False)
            rep.fail('aggregate-direct:%s:raises' % agg, case, repr(e)[:300])
            first = first or rep.oracle_failures[-1]
            continue
        want = norm_cell(spec_agg(agg, [{'v': v} for v in vals], 'v'))
        rep.case('agg-direct:' + agg, case, key=[agg, vals, 'direct'])
        if got != want:
            rep.fail('aggregate-direct:%s' % agg, case, {'expected': canon._plain(want), 'got': canon._plain(got)})
            first = first or rep.oracle_failures[-1]
    return first


def key_rendering(ctx):
    """the key is the rendered text: values that compare equal in Python but render differently (1.1 / 1.10, 1 / 1.0 /
    True, 0.0 / -0.0) are different keys; values that render alike are the same key"""
    import decimal
    rep = ctx.report
    D = decimal.Decimal
    groups = {
        'decimal-scale': [D('1.1'), D('1.10'), D('1.2'), D('2.5'), D('2.50')],
        'int-float-bool': [1, 1.0, True, 0, False, 0.0],
        'signed-zero': [0.0, -0.0, 1.5],
        'text-vs-number': ['1', 1, '1.0', 1.0],
    }
    for gname, keys in groups.items():
        for order in ('as-listed', 'reversed'):
            ks = list(keys) if order == 'as-listed' else list(reversed(keys))
            source = [{'k': k, 'v': i} for i, k in enumerate(ks)] + [{'k': ks[0], 'v': 100}]
            target = [{'k': k, 't': i} for i, k in enumerate(ks)]
            case = {'key-rendering': gname, 'order': order, 'keys': [repr(k) for k in ks]}
            for how in ('join', 'dedup'):
                try:
                    with quiet():
                        if how == 'join':
                            res = Flow(copy.deepcopy(source), copy.deepcopy(target),
                                       DF.join('res_1', ['k'], 'res_2', ['k'],
                                               {'first_v': {'name': 'v', 'aggregate': 'first'}, 'n': {'name': 'v', 'aggregate': 'count'}},
                                               mode='half-outer')).results(on_error=None)[0][0]
                        else:
                            res = Flow(copy.deepcopy(source),
                                       DF.join_with_self('res_1', ['k'], {'k': None, 'n': {'name': 'v', 'aggregate': 'count'}}))\
                                .results(on_error=None)[0][0]
                except Exception as e:  # noqa
                    rep.case('key-rendering', case, nontrivial=False)
                    rep.fail('key-rendering:%s:raises' % how, case, repr(e)[:300])
                    continue
                rep.case('key-rendering:' + how, case, key=[gname, order, how])
                by_text = {}
                for r in source:
                    by_text.setdefault(render(['k'], r, 0), []).append(r)
                if how == 'join':
                    want = [(render(['k'], t, 0), by_text[render(['k'], t, 0)][0]['v'], len(by_text[render(['k'], t, 0)])) for t in target]
                    got = [(render(['k'], r, 0), r.get('first_v'), r.get('n')) for r in res]
                else:
                    want = sorted((txt, len(rs)) for txt, rs in by_text.items())
                    got = sorted((render(['k'], r, 0), r.get('n')) for r in res)
                if got != want:
                    rep.fail('key-rendering:%s:%s' % (how, gname), case, {'expected': repr(want)[:400], 'got': repr(got)[:400]})


def typed_values(ctx):
    """values of every cell type through the (on-disk capable) index: what a value-carrying aggregate returns IS one of
    the source values - same type, same sub-second part, same UTC offset"""
    import datetime as dt
    import decimal
    rep = ctx.report
    tz = dt.timezone(dt.timedelta(hours=-5))
    kinds = {
        'datetime-micro': [dt.datetime(2021, 3, 4, 10, 0, 0, 900000), dt.datetime(2021, 3, 4, 10, 0, 0, 100), dt.datetime(2020, 1, 1)],
        'datetime-tz': [dt.datetime(2021, 3, 4, 10, 0, tzinfo=tz), dt.datetime(2021, 3, 4, 9, 0, tzinfo=dt.timezone.utc),
                        dt.datetime(2021, 3, 5, 1, 0, tzinfo=tz)],
        'time-micro': [dt.time(1, 2, 3, 500000), dt.time(1, 2, 3, 4), dt.time(0, 0)],
        'date': [dt.date(2020, 2, 29), dt.date(1000, 1, 1), dt.date(2020, 3, 1)],
        'decimal': [decimal.Decimal('1.50'), decimal.Decimal('1.5000001'), decimal.Decimal('-0.001')],
        'bigint': [2 ** 70, -2 ** 65, 3],
        'text': ['é', 'e\u0301', ''],
        'list': [[1, 'a'], [1, 'a', None], []],
    }
    aggs = ['first', 'last', 'any', 'min', 'max', 'array', 'set']
    for kname, vals in kinds.items():
        for agg in aggs:
            if agg in ('min', 'max', 'set') and kname in ('list',):
                continue     # arrays are neither ordered nor hashable: not a well-typed use
            if kname == 'text' and agg in ('min', 'max'):
                vals_k = ['é', 'z', 'a']
            else:
                vals_k = vals
            source = [{'k': 1, 'v': v} for v in vals_k]
            target = [{'k': 1}]
            case = {'typed-values': kname, 'aggregator': agg}
            try:
                with quiet():
                    res = Flow(copy.deepcopy(source), copy.deepcopy(target),
                               DF.join('res_1', ['k'], 'res_2', ['k'], {'out': {'name': 'v', 'aggregate': agg}}))\
                        .results(on_error=None)[0]
            except Exception as e:  # noqa
                rep.case('typed-values', case, nontrivial=False)
                rep.fail('typed-values:%s:%s:raises' % (agg, kname), case, repr(e)[:300])
                continue
            rep.case('typed-values', case)
            got = res[0][0].get('out')
            nn = [v for v in vals_k if v is not None and v != '']
            want = {'first': nn[0], 'last': nn[-1], 'any': nn[-1], 'min': min(nn) if agg == 'min' else None,
                    'max': max(nn) if agg == 'max' else None, 'array': nn, 'set': None}[agg]

            def same(a, b):
                if type(a) is not type(b) or a != b:
                    return False
                if isinstance(a, dt.datetime):
                    return a.utcoffset() == b.utcoffset() and a.microsecond == b.microsecond
                if isinstance(a, list):
                    return len(a) == len(b) and all(same(x, y) for x, y in zip(a, b))
                return True
            if agg == 'set':
                ok = isinstance(got, (list, set, tuple)) and len(list(got)) == len(nn) and all(any(same(g, w) for w in nn) for g in got)
            elif agg == 'array':
                ok = isinstance(got, list) and same(got, want)
            else:
                ok = same(got, want)
            if not ok:
                rep.fail('typed-values:%s:%s' % (agg, kname), case, {'expected': repr(want if agg != 'set' else nn)[:200], 'got': repr(got)[:200]})


def run(ctx):
    rep = ctx.report
    rep.rule = ('source/target tables of 0-12 rows with duplicate, missing and null keys x key as field list (1-2 fields), '
                'format string or row number x mode {inner, half-outer, full-outer, deduplication} x 1-3 output fields over '
                'all 12 aggregators x source_delete; every aggregator x every value list of length <= 3 over a 4-value '
                'domain; joins with >10240 distinct keys (on-disk index); non-trivial = more than one source row and a '
                'target row')
    rep.assumptions = ['kvfile: last write wins, identical results below and above its cache',
                       'avg / median quotients are compared as Python computes them from the same integers']
    rng = ctx.rng('main')
    pending = []
    for _ in range(ctx.n(500, 8000)):
        join_case(ctx, rng, pending)
    exhaustive_aggregators(ctx, pending)
    agg_direct(ctx, ctx.n(400, 5000), ctx.rng('direct'))
    with quiet():
        typed_values(ctx)
        key_rendering(ctx)
    for _ in range(ctx.n(1, 4)):
        join_case(ctx, rng, pending, big=True)
    if ctx.model.available():
        outs = ctx.model.run([op for _, op, _ in pending])
        for (case, op, real), mo in zip(pending, outs):
            rep.corr('join', case, real_view(real), model_view(mo, op['fields'], real))
    else:
        rep.disagreements.append({'op': 'join', 'case': 'driver unavailable', 'real': None, 'model': None})

    def search(disagreements):
        rng2 = ctx.rng('search')
        o = agg_direct(ctx, 20000, rng2)
        if o:
            return {'signature': o['signature'], 'case': o['case'], 'detail': o['detail']}
        before = len(rep.oracle_failures)
        for _ in range(ctx.n(3000, 20000)):
            join_case(ctx, rng2, [])
            if len(rep.oracle_failures) > before:
                o = rep.oracle_failures[before]
                return {'signature': o['signature'], 'case': o['case'], 'detail': o['detail']}
        return None
    pycorr.run(ctx)
    return ctx.finish(search=search)


def replay(payload):
    print(json.dumps(payload.get('input'), indent=1)[:3000])
    return 0
