"""C12 — sort_rows emits a stable, correctly ordered permutation."""
import copy
import decimal
import json
import struct

import dataflows as DF
from dataflows import Flow
from dataflows.processors.sort_rows import KeyCalc

from .. import canon, fast  # noqa: F401
from ..common import quiet

TEXTS = ['a', 'a0', 'a b', 'ab', 'A', 'b', ' ', 'ä', 'aé', 'aa', 'a!', 'z', '10', '9', '😀', 'a~']
NUMS = [0, 1, -1, 2, 10, -10, 0.5, -0.5, 1e300, -1e300, 1e-300, 3.25, decimal.Decimal('2.5'), decimal.Decimal('-7.125'),
        2 ** 40, -(2 ** 40), 0.0, -0.0, 123456789, decimal.Decimal('1E+2'), -1e200, -1e250, -1.5e308, 1e250, -(2 ** 770), 2 ** 770,
        float('-inf'), float('inf'), -3e231, -3.2e231]
HUGE = [2 ** 53, 2 ** 53 + 1, 2 ** 53 + 2, -(2 ** 53) - 1]


def num_key(v):
    return float(v)


def spec_sort(rows, keyfn, reverse):
    """stable ascending sort by the specification order; reverse = exactly the reverse sequence"""
    out = sorted(range(len(rows)), key=lambda i: (keyfn(rows[i]), i))
    if reverse:
        out = out[::-1]
    return out


def table_case(ctx, rng, pending, numkeys):
    rep = ctx.report
    kind = rng.choice(['text', 'num', 'num', 'two-fields', 'callable', 'list', 'num-and-formatted', 'formatted-and-num',
                       'num-odd-name', 'two-odd-names'])
    n = rng.choice([0, 1, 2, 5, 12, 40])
    reverse = rng.random() < 0.4
    bs = rng.choice([1, 2, 1000])
    rows = []
    for i in range(n):
        rows.append({'t': rng.choice(TEXTS), 'x': rng.choice(NUMS), 'y': rng.choice([1, 2, 3]), 'id': i})
    odd = rng.choice(['unit price', 'GDP (USD)', 'year-end', 'ü', '%'])      # ('.', '[', '!', ':' have a meaning inside {})
    if kind in ('num-odd-name', 'two-odd-names'):
        # field names need not be identifiers
        for r in rows:
            r[odd] = r['x']
            r['n 2'] = r['y']
    if kind == 'text':
        key, keyfn = '{t}', (lambda r: r['t'])
    elif kind == 'num':
        key, keyfn = '{x}', (lambda r: num_key(r['x']))
    elif kind == 'two-fields':
        key, keyfn = '{y}{x}', (lambda r: (num_key(r['y']), num_key(r['x'])))
    elif kind == 'num-odd-name':
        key, keyfn = '{%s}' % odd, (lambda r: num_key(r[odd]))
    elif kind == 'two-odd-names':
        key, keyfn = '{n 2}{%s}' % odd, (lambda r: (num_key(r['n 2']), num_key(r[odd])))
    elif kind == 'num-and-formatted':
        # a plain numeric field keeps its numeric order whatever the other fields of the format string look like
        key, keyfn = '{x}{t:<6}', (lambda r: (num_key(r['x']), format(r['t'], '<6')))
    elif kind == 'formatted-and-num':
        key, keyfn = '{t:<3}{y}{x}', (lambda r: (format(r['t'], '<3'), num_key(r['y']), num_key(r['x'])))
    elif kind == 'list':
        key, keyfn = ['y', 'x'], (lambda r: (num_key(r['y']), num_key(r['x'])))
    else:
        key, keyfn = (lambda r: '%05d' % (r['y'] * 7 % 5)), (lambda r: '%05d' % (r['y'] * 7 % 5))
    case = {'key_kind': kind, 'key': key if isinstance(key, (str, list)) else 'callable', 'reverse': reverse, 'batch_size': bs,
            'rows': [[r['t'], canon.canon_json(r['x']), r['y']] for r in rows]}
    data = copy.deepcopy(rows) or None
    if not rows:
        rep.case('sort:' + kind, case, nontrivial=False)
        return
    # the table may be one resource among others, selected by position, by a list or by its (escaped) name; its name need not
    # be a pattern that matches itself
    how = rng.choice([None, None, 'int', 'negative-int', 'list', 'name'])
    case['selected_as'] = how
    try:
        with quiet():
            if how is None:
                out = Flow(data, DF.sort_rows(key, reverse=reverse, batch_size=bs)).results(on_error=None)[0][0]
            else:
                import re as _re
                nm = rng.choice(['q+', 'a(1)', 'data', 'a.b', 'x|y'])
                case['resource_name'] = nm
                other = [{'id': 3}, {'id': 1}, {'id': 2}]
                sel = {'int': 1, 'negative-int': -1, 'list': [nm], 'name': _re.escape(nm)}[how]
                res = Flow(copy.deepcopy(other), data, DF.update_resource(0, name='other', path='other.csv'),
                           DF.update_resource(1, name=nm, path='data.csv'),
                           DF.sort_rows(key, resources=sel, reverse=reverse, batch_size=bs)).results(on_error=None)[0]
                out = res[1]
                if [r['id'] for r in res[0]] != [3, 1, 2]:
                    rep.fail('unselected-resource-reordered', case, {'got': [r['id'] for r in res[0]]})
    except Exception as e:  # noqa
        rep.case('sort:' + kind, case, nontrivial=False)
        rep.fail('sort-raises', case, repr(e)[:300])
        return
    got = [r['id'] for r in out]
    rep.case('sort:' + kind, case, nontrivial=len(rows) > 1)
    rep.hist('key_kind', kind)
    want = spec_sort(rows, keyfn, reverse)
    if sorted(got) != list(range(len(rows))):
        rep.fail('not-a-permutation', case, {'got': got})
    elif got != want:
        # classify: wrong order of distinct keys, or ties not in input order
        ks = [keyfn(rows[i]) for i in got]
        asc = ks if not reverse else ks[::-1]
        ordered = all(asc[i] <= asc[i + 1] for i in range(len(asc) - 1))
        rep.fail('unstable-ties' if ordered else 'wrong-order:%s' % kind, case, {'expected': want, 'got': got})
    # correspondence: the model sorts the real rendered keys
    kc = KeyCalc(key)
    rendered = [kc(copy.deepcopy(r)) for r in rows]
    pending.append((case, {'op': 'sort', 'keys': rendered, 'reverse': reverse}, got))
    if kind == 'num':
        for r in rows:
            f = float(r['x'])
            bits = struct.unpack('>Q', struct.pack('>d', f))[0]
            numkeys.append(({'value': canon.canon_json(r['x'])}, {'op': 'numkey', 'neg': bool(bits >> 63),
                                                                    'mag': str(bits & (2 ** 63 - 1))}, kc({'x': r['x']})))


def big_case(ctx, rng, reverse):
    """above the 10240-entry cache of the key/value file"""
    rep = ctx.report
    n = 10240 + rng.choice([1, 500])
    rows = [{'x': (i * 7919) % 1000 - 500, 'id': i} for i in range(n)]
    with quiet():
        out = Flow(rows, DF.sort_rows('{x}', reverse=reverse, batch_size=rng.choice([100, 1000]))).results(on_error=None)[0][0]
    got = [r['id'] for r in out]
    case = {'big': n, 'reverse': reverse}
    rep.case('sort:big', case)
    want = spec_sort(rows, lambda r: r['x'], reverse)
    if got != want:
        rep.fail('wrong-order:above-cache', case, {'first_diff': next(i for i, (a, b) in enumerate(zip(got, want)) if a != b)})


def wide_case(ctx, n, reverse):
    """few distinct keys over a table that is longer than 16^k rows: the row number that breaks ties has to order rows on both
    sides of every power of 16"""
    rep = ctx.report
    rows = [{'x': 'k%d' % (i % 3), 'id': i} for i in range(n)]
    with quiet():
        out = Flow(rows, DF.sort_rows('{x}', reverse=reverse, batch_size=5000)).results(on_error=None)[0][0]
    got = [r['id'] for r in out]
    case = {'wide': n, 'reverse': reverse}
    rep.case('sort:wide', case)
    want = spec_sort(rows, lambda r: r['x'], reverse)
    if got != want:
        rep.fail('wrong-order:ties-in-a-long-table', case, {'first_diff': next(i for i, (a, b) in enumerate(zip(got, want)) if a != b)})


def probe(finding):
    if finding['signature'] == 'sort:integers-above-2^53-tie':
        with quiet():
            out = Flow([{'k': 2 ** 53 + 1}, {'k': 2 ** 53}], DF.sort_rows('{k}')).results(on_error=None)[0][0]
        return [r['k'] for r in out] != [2 ** 53, 2 ** 53 + 1]
    raise ValueError(finding['signature'])


def run(ctx):
    rep = ctx.report
    rep.rule = ('tables of 0-40 rows with duplicate keys, text keys that are prefixes of one another / unicode / empty, numbers '
                'of both signs, fractional, huge and tiny, zero of both signs, ints, floats and Decimals x key as format '
                'string, two-field format, field list or callable x reverse x batch size {1,2,1000}; plus tables above the '
                '10240-entry cache; non-trivial = at least two rows; distinct by content')
    rep.assumptions = ["bitstring's float packing = IEEE-754 double; magnitude bits order like the absolute value",
                       'kvfile returns keys in ascending byte order = code-point order of UTF-8',
                       'integers are keyed by their nearest double: values that differ beyond 2^53 tie (listed finding)']
    rng = ctx.rng('main')
    pending, numkeys = [], []
    for _ in range(ctx.n(300, 5000)):
        table_case(ctx, rng, pending, numkeys)
    for _ in range(ctx.n(1, 6)):
        for reverse in (False, True):      # both directions on every run, above the cache
            big_case(ctx, rng, reverse)
    for n in ((300, 4200) if ctx.tier == 'quick' else (300, 4200, 66000)):
        wide_case(ctx, n, n == 4200)
    if ctx.model.available():
        outs = ctx.model.run([op for _, op, _ in pending])
        for (case, op, got), mo in zip(pending, outs):
            rep.corr('sort', case, got, mo['order'])
        numkeys = numkeys[:ctx.n(2000, 20000)]
        outs = ctx.model.run([op for _, op, _ in numkeys])
        for (case, op, real), mo in zip(numkeys, outs):
            rep.corr('sortkey', case, real, mo['key'])
    else:
        rep.disagreements.append({'op': 'sort', 'case': 'driver unavailable', 'real': None, 'model': None})

    def search(disagreements):
        rng2 = ctx.rng('search')
        before = len(rep.oracle_failures)
        for n in (300, 4200, 66000):          # first: ties across 16^2, 16^3, 16^4 rows
            for reverse in (False, True):
                wide_case(ctx, n, reverse)
            if len(rep.oracle_failures) > before:
                o = rep.oracle_failures[before]
                return {'signature': o['signature'], 'case': o['case'], 'detail': o['detail']}
        for _ in range(ctx.n(3000, 20000)):
            table_case(ctx, rng2, [], [])
            if len(rep.oracle_failures) > before:
                o = rep.oracle_failures[before]
                return {'signature': o['signature'], 'case': o['case'], 'detail': o['detail']}
        return None
    from .. import pycorr
    pycorr.run(ctx)
    return ctx.finish(probe=probe, search=search)


def replay(payload):
    print(json.dumps(payload.get('input'), indent=1)[:3000])
    return 0
