"""C06 — row-wise pipelines stream with bounded look-ahead."""
import os

import dataflows as DF
from dataflows import Flow
from dataflows.helpers.iterable_loader import iterable_storage

from .. import canon, fast  # noqa: F401
from ..common import quiet


def build_pipeline(rng, scratch, idx):
    """a chain of row-wise steps; returns (steps, mult) where mult(i) = rows delivered per source row i"""
    steps = []
    keep = lambda i: True  # noqa: E731
    factor = 1
    desc = []
    conds = []
    n_steps = rng.randint(1, 6)
    for _ in range(n_steps):
        k = rng.choice(['add_field', 'computed', 'filter', 'filter_fn', 'row_fn', 'rows_fn', 'printer', 'validate', 'set_type',
                        'dump', 'stream', 'delete_fields', 'unpivot', 'select'])
        if k == 'unpivot' and ('unpivot' in desc or 'select' in desc):
            k = 'row_fn'
        if k == 'select' and 'unpivot' in desc:
            k = 'row_fn'
        desc.append(k)
        if k == 'add_field':
            steps.append(DF.add_field('f%d' % len(steps), 'integer', 7))
        elif k == 'computed':
            steps.append(DF.add_computed_field(target='c%d' % len(steps), operation='constant', with_='x'))
        elif k == 'filter':
            m = rng.choice([2, 3, 5])
            steps.append(DF.filter_rows(not_equals=[{'m%d' % m: 0}]))
            conds.append(lambda i, m=m: i % m != 0)
        elif k == 'filter_fn':
            m = rng.choice([2, 3])
            steps.append(DF.filter_rows(lambda row, m=m: row['i'] % m == 0))
            conds.append(lambda i, m=m: i % m == 0)
        elif k == 'row_fn':
            def fn(row):
                row['m2'] = row['i'] % 2
            steps.append(fn)
        elif k == 'rows_fn':
            def rfn(rows):
                for r in rows:
                    yield r
            steps.append(rfn)
        elif k == 'printer':
            steps.append(DF.printer(num_rows=1))
        elif k == 'validate':
            steps.append(DF.validate())
        elif k == 'set_type':
            steps.append(DF.set_type('i', type='integer'))
        elif k == 'dump':
            steps.append(DF.dump_to_path(os.path.join(scratch, 'd%d_%d' % (idx, len(steps))),
                                         format=rng.choice(['csv', 'json'])))
        elif k == 'stream':
            steps.append(DF.stream(os.path.join(scratch, 's%d_%d' % (idx, len(steps)), 'stream.ndjson')))
        elif k == 'delete_fields':
            steps.append(DF.delete_fields(['pad']))
        elif k == 'select':
            steps.append(DF.select_fields(['i', 'm2', 'm3', 'm5', 'u1', 'u2', 'opt']))
        elif k == 'unpivot':
            steps.append(DF.unpivot([{'name': 'u(\\d)', 'keys': {'which': '\\1'}}],
                                    [{'name': 'which', 'type': 'string'}], {'name': 'val', 'type': 'integer'}))
            factor *= 2

    def mult(i):
        return factor if all(c(i) for c in conds) else 0
    return steps, mult, desc


def real_trace(n, steps, shape='dense', via_load=None):
    """via_load = None: the counting generator is the source itself; otherwise {'limit_rows': L or None}: it is
    handed to load() as a (descriptor, [iterator]) pair, with load's own row wrappers on top"""
    trace = []

    def source():
        for i in range(n):
            trace.append(['p', i])
            opt = None if shape == 'all-null' else (None if (shape == 'late' and i < 150) else 'v')
            yield {'i': i, 'm2': i % 2, 'm3': i % 3, 'm5': i % 5, 'u1': i, 'u2': -i, 'pad': 'x', 'opt': opt,
                   'mixed': (i if i % 2 else str(i)) if shape == 'mixed' else 1}

    def sink(rows):
        for r in rows:
            trace.append(['d', r['i']])
            yield r
    with quiet():
        if via_load is None:
            Flow(source(), *steps, sink).process()
        else:
            from .. import canon
            d = canon.make_descriptor([{'name': 'src', 'fields': [('i', 'integer'), ('m2', 'integer'), ('m3', 'integer'),
                                                                  ('m5', 'integer'), ('u1', 'integer'), ('u2', 'integer'),
                                                                  ('pad', 'string'), ('opt', 'string'), ('mixed', 'integer')]}])
            kw = {} if via_load.get('limit_rows') is None else {'limit_rows': via_load['limit_rows']}
            Flow(DF.load((d, [source()]), **kw), *steps, sink).process()
    return trace


def multi_source_trace(n, k, extra):
    """k counting sources concatenated into one stream (optionally through further row-wise steps): pulls from any source
    and deliveries at the end, in the order they happen"""
    trace = []

    def src(j):
        for i in range(n):
            trace.append('p')
            yield {'i': i, 's': j}

    def sink(rows):
        for r in rows:
            trace.append('d')
            yield r
    with quiet():
        Flow(*[src(j) for j in range(k)], DF.concatenate({'i': [], 's': []}), *extra, sink).process()
    pulled = delivered = worst = 0
    for t in trace:
        if t == 'p':
            pulled += 1
        else:
            delivered += 1
            worst = max(worst, pulled - delivered)
    return worst, delivered


def max_lookahead(trace):
    pulled = 0
    worst = 0
    for kind, k in trace:
        if kind == 'p':
            pulled += 1
        else:
            worst = max(worst, pulled - (k + 1))
    return worst


def run(ctx):
    rep = ctx.report
    S = iterable_storage.SAMPLE_SIZE
    rep.rule = ('chains of 1-6 row-wise steps (field edits, computed fields, filters, set_type/validate, unpivot, printer, '
                'file dumpers csv/json, stream, user row/rows functions) over counting sources of several lengths around '
                'and far above the sample size; the real pull/deliver interleaving is compared with the model trace; '
                'non-trivial = at least one row delivered; distinct by (pipeline shape, n)')
    rep.assumptions = ['buffering inside file objects / csv is not look-ahead', 'generator scheduling of CPython']
    rng = ctx.rng('main')
    sizes_small = [1, 2, 99, 100, 101, 250]
    sizes_big = [2000, 20000] if ctx.quick else [2000, 20000, 100000]
    pending = []
    npipes = ctx.n(40, 200)
    for idx in range(npipes):
        state = rng.getstate()
        results = {}
        for n in [rng.choice(sizes_small)] + (sizes_big if idx % 8 == 0 else [rng.choice([300, 1000])]):
            rng.setstate(state)
            steps, mult, desc = build_pipeline(rng, ctx.scratch, idx)
            shape = ['dense', 'all-null', 'late', 'mixed'][idx % 4]
            tr = real_trace(n, steps, shape)
            la = max_lookahead(tr)
            results[n] = la
            case = {'pipeline': desc, 'n': n, 'source_shape': shape}
            delivered = sum(1 for t in tr if t[0] == 'd')
            rep.case('trace', case, key=[desc, n, shape], nontrivial=delivered > 0)
            rep.hist('source_shape', shape)
            rep.hist('max_lookahead', la)
            rep.hist('n', n)
            if la > max(S - 1, 0):
                rep.fail('lookahead-exceeds-sample', case, {'max_lookahead': la, 'sample_size': S})
            if n <= 2000:
                pending.append((case, {'op': 'trace', 'S': S, 'mult': [mult(i) for i in range(n)]}, tr))
        big = [results[n] for n in results if n >= 300]
        if len(set(big)) > 1:
            rep.fail('lookahead-grows-with-n', {'pipeline': desc}, results)
        # the same chain behind load((descriptor, iterators)) with and without limit_rows
        if idx % 2 == 0:
            n = rng.choice([250, 1000, 3000])
            for lim in (None, n // 2, n, 10 * n):
                rng.setstate(state)
                steps, mult, desc = build_pipeline(rng, ctx.scratch, idx)
                tr = real_trace(n, steps, 'dense', via_load={'limit_rows': lim})
                la = max_lookahead(tr)
                case = {'pipeline': desc, 'n': n, 'source': 'load((descriptor, [iterator]))', 'limit_rows': lim}
                delivered = sum(1 for t in tr if t[0] == 'd')
                rep.case('trace:load', case, key=[desc, n, 'load', lim], nontrivial=delivered > 0)
                rep.hist('max_lookahead_load', la)
                if la > max(S - 1, 0):
                    rep.fail('lookahead-exceeds-sample:load', case, {'max_lookahead': la, 'sample_size': S})
                pulled = sum(1 for t in tr if t[0] == 'p')
                if lim is not None and pulled > min(n, lim) + S:
                    rep.fail('limit_rows-reads-beyond-the-limit', case, {'pulled': pulled, 'limit_rows': lim})
    # several sources merged by concatenate: every source has its own inference sample, nothing else is read ahead
    for k in (2, 3):
        for extra_kind in ('none', 'row_fn'):
            extra = [] if extra_kind == 'none' else [lambda row: None]
            las = {}
            for n in ([300, 2000] if ctx.quick else [300, 2000, 20000]):
                la, delivered = multi_source_trace(n, k, extra)
                las[n] = la
                case = {'pipeline': ['concatenate of %d sources' % k, extra_kind], 'n_per_source': n}
                rep.case('trace:concatenate', case, key=['concat', k, extra_kind, n], nontrivial=delivered > 0)
                if delivered != k * n:
                    rep.fail('concatenate-lost-rows', case, {'delivered': delivered})
                if la > k * S:
                    rep.fail('lookahead-exceeds-samples:concatenate', case, {'max_lookahead': la, 'bound': k * S})
            if len(set(las.values())) > 1:
                rep.fail('lookahead-grows-with-n:concatenate', {'sources': k, 'then': extra_kind}, las)
    if ctx.model.available():
        outs = ctx.model.run([op for _, op, _ in pending])
        for (case, _op, tr), mo in zip(pending, outs):
            ok = rep.corr('trace', case, tr, mo['trace'])
    else:
        rep.disagreements.append({'op': 'trace', 'case': 'driver unavailable', 'real': None, 'model': None})

    def search(disagreements):
        rng2 = ctx.rng('search')
        for idx in range(ctx.n(60, 300)):
            steps, mult, desc = build_pipeline(rng2, ctx.scratch, 10000 + idx)
            for n in (1500, 6000):
                pass
            tr1 = real_trace(1500, steps, ['dense', 'all-null', 'late', 'mixed'][idx % 4])
            la = max_lookahead(tr1)
            if la > S - 1:
                return {'signature': 'lookahead-exceeds-sample', 'case': {'pipeline': desc, 'n': 1500},
                        'detail': {'max_lookahead': la, 'sample_size': S}}
        return None
    return ctx.finish(search=search)


def replay(payload):
    import json
    print(json.dumps(payload.get('input'), indent=1)[:3000])
    return 0
