"""C05 — observers are transparent and capture the complete stream at their position."""
import copy
import filecmp
import io
import json
import os
import zipfile

import dataflows as DF
from dataflows import Flow

from .. import canon, stepcorr as S
from ..common import quiet

OBSERVERS = ['printer', 'dump_to_path', 'dump_to_path_json', 'dump_to_zip', 'stream', 'checkpoint', 'finalizer',
             'update_stats', 'validate']


def gen_base(rng):
    """2-3 typed resources sharing an integer key, sized around and above the sample"""
    nres = rng.randint(2, 3)
    names = rng.sample(['a', 'ab', 'b', 'res_1'], nres)
    resources, rows = [], []
    for n in names:
        resources.append({'name': n, 'fields': [('k', 'integer'), ('v', 'string'), ('w', 'integer')]})
        cnt = rng.choice([0, 0, 1, 3, 12, 101, 130])
        rows.append([{'k': i % 7, 'v': 'x%d' % i, 'w': (None if i % 5 == 4 else i)} for i in range(cnt)])
    return canon.make_descriptor(resources), rows, names


def discarding_suffix(rng, names):
    """steps that delete, merge, filter or join away rows or whole resources"""
    out = []
    pool = ['delete_first', 'delete_last', 'delete_all_but_first', 'filter_none', 'filter_some', 'concat', 'join_delete',
            'join_keep', 'dedup', 'delete_fields', 'sort', 'take_one', 'mutate_in_place', 'mutate_in_place']
    for _ in range(rng.randint(1, 3)):
        k = rng.choice(pool)
        if k == 'delete_first':
            out.append((k, lambda: DF.delete_resource(0)))
        elif k == 'delete_last':
            out.append((k, lambda: DF.delete_resource(-1)))
        elif k == 'delete_all_but_first':
            out.append((k, lambda n=names: DF.delete_resource(list(n[1:]))))
        elif k == 'filter_none':
            out.append((k, lambda: DF.filter_rows(equals=[{'k': 99}])))
        elif k == 'filter_some':
            out.append((k, lambda: DF.filter_rows(not_equals=[{'k': 3}])))
        elif k == 'concat':
            out.append((k, lambda: DF.concatenate({'k': [], 'v': [], 'w': []}, target={'name': 'all'})))
            return out
        elif k in ('join_delete', 'join_keep'):
            sd = k == 'join_delete'
            jm = rng.choice(['inner', 'half-outer', 'full-outer'])
            out.append((k + ':' + jm, lambda n=names, sd=sd, jm=jm: DF.join(n[0], ['k'], n[1], ['k'], {'cnt': {'aggregate': 'count'}},
                                                                        source_delete=sd, mode=jm)))
            return out
        elif k == 'dedup':
            out.append((k, lambda: DF.set_primary_key(['k'])))
            out.append((k, lambda: DF.deduplicate()))
        elif k == 'delete_fields':
            out.append((k, lambda: DF.delete_fields(['w'])))
        elif k == 'sort':
            out.append((k, lambda: DF.sort_rows('{k}')))
        elif k == 'mutate_in_place':
            def redact(row):
                # edits the row objects it is handed: what an observer upstream captured must not change
                row['v'] = 'REDACTED'
                row['k'] = (row['k'] or 0) + 1000
            out.append((k, lambda: redact))
        elif k == 'take_one':
            def take_one(rows):
                # a disciplined consumer that drops rows (it still iterates them all)
                for i, r in enumerate(rows):
                    if i == 0:
                        yield r
            out.append((k, lambda: take_one))
    return out


def prefix_steps(rng):
    out = []
    for _ in range(rng.randint(0, 2)):
        k = rng.choice(['add', 'filter', 'rowfn'])
        if k == 'add':
            out.append((k, lambda: DF.add_field('z', 'integer', 5)))
        elif k == 'filter':
            out.append((k, lambda: DF.filter_rows(not_equals=[{'k': 1}])))
        else:
            def fn(row):
                row['v'] = row['v'] + '.'
            out.append((k, lambda: fn))
    if any(l == 'add' for l, _ in out) and sum(1 for l, _ in out if l == 'add') > 1:
        out = [x for x in out if x[0] != 'add'] + [('add', lambda: DF.add_field('z', 'integer', 5))]
    return out


class Capture:
    """builds an observer step and knows how to read back what it persisted / reported"""

    def __init__(self, kind, base, tag):
        self.kind = kind
        self.dir = os.path.join(base, tag)
        self.calls = []
        self.seen = [0]
        self.num_rows = 1 + sum(map(ord, tag[1:])) % 3     # 1..3, the same for the full and the alone run of a case

    def steps(self):
        k = self.kind
        if k == 'printer':
            return [DF.printer(num_rows=self.num_rows, header_print=lambda h, kw: self.calls.append(('h', h)),
                               table_print=lambda t, kw: self.calls.append(('t', t)))]
        if k == 'dump_to_path':
            return [DF.dump_to_path(self.dir)]
        if k == 'dump_to_path_json':
            return [DF.dump_to_path(self.dir, format='json')]
        if k == 'dump_to_zip':
            os.makedirs(self.dir, exist_ok=True)
            return [DF.dump_to_zip(os.path.join(self.dir, 'out.zip'))]
        if k == 'stream':
            return [DF.stream(os.path.join(self.dir, 'stream.ndjson'))]
        if k == 'checkpoint':
            return [DF.checkpoint('cp', checkpoint_path=self.dir)]
        if k == 'finalizer':
            def count(row):
                self.seen[0] += 1

            def cb():
                self.calls.append(('cb', self.seen[0]))
            return [count, DF.finalizer(cb)]
        if k == 'update_stats':
            return [DF.update_stats({'marker': 1})]
        if k == 'validate':
            return [DF.validate()]
        raise ValueError(k)

    def persisted(self):
        """canonical content of what the observer persisted (None when it persists nothing)"""
        k = self.kind
        if k in ('dump_to_path', 'dump_to_path_json'):
            out = {}
            for root, _d, files in os.walk(self.dir):
                for fn in files:
                    p = os.path.join(root, fn)
                    with open(p, 'rb') as f:
                        out[os.path.relpath(p, self.dir)] = f.read()
            return out
        if k == 'dump_to_zip':
            with zipfile.ZipFile(os.path.join(self.dir, 'out.zip')) as z:
                return {n: z.read(n) for n in z.namelist()}
        if k == 'stream':
            with open(os.path.join(self.dir, 'stream.ndjson'), 'rb') as f:
                return f.read()
        if k == 'checkpoint':
            with open(os.path.join(self.dir, 'cp', 'stream.ndjson'), 'rb') as f:
                return f.read()
        if k == 'printer':
            # what it reported: resource headers and the printed tables
            return {'%d:%s' % (i, c[0]): str(c[1]).encode('utf-8') for i, c in enumerate(self.calls)}
        return None


def run_flow(desc, rows, steps):
    try:
        with quiet():
            res, dp, stats = Flow(canon.pkg_source(desc, rows), *steps).results(on_error=None)
        return {'ok': canon.enc_pkg(dp.descriptor, res), 'stats': stats}
    except Exception as e:  # noqa
        return {'err': S.classify_exc(e), 'exc': repr(e)[:300]}


def proj(result):
    """rows and schemas seen downstream (names, types, primary key); dumpers legitimately stamp formats"""
    if 'ok' not in result:
        return {'err': result['err']}
    out = []
    for r in canon.norm_pkg(result['ok']):
        out.append({'name': r['name'], 'fields': [[f[0], f[1]] for f in r['fields']], 'pk': r['pk'], 'rows': r['rows']})
    return {'ok': out}


def one_case(ctx, rng, idx):
    rep = ctx.report
    desc, rows, names = gen_base(rng)
    pre = prefix_steps(rng)
    suf = discarding_suffix(rng, names)
    kind = rng.choice(OBSERVERS)
    case = {'observer': kind, 'prefix': [l for l, _ in pre], 'suffix': [l for l, _ in suf],
            'rows_per_resource': [len(r) for r in rows]}
    full_cap = Capture(kind, ctx.scratch, 'f%d' % idx)
    with_obs = run_flow(desc, rows, [f() for _, f in pre] + full_cap.steps() + [f() for _, f in suf])
    without = run_flow(desc, rows, [f() for _, f in pre] + [f() for _, f in suf])
    rep.case('observe:' + kind, case, nontrivial='ok' in with_obs and sum(len(r) for r in rows) > 0)
    rep.hist('outcome', 'ok' if 'ok' in with_obs else with_obs['err'])
    if 'ok' not in without:
        if 'ok' in with_obs:
            rep.fail('observer-masks-error:%s' % kind, case, {'without': without})
        return
    if 'ok' not in with_obs:
        rep.fail('observer-breaks-pipeline:%s' % kind, case, with_obs)
        return
    # (a) transparent
    if proj(with_obs) != proj(without):
        rep.fail('not-transparent:%s' % kind, case, {'with': proj(with_obs), 'without': proj(without)})
    # (b) complete: what it persisted equals what it persists when nothing follows it
    alone_cap = Capture(kind, ctx.scratch, 'a%d' % idx)
    alone = run_flow(desc, rows, [f() for _, f in pre] + alone_cap.steps())
    if 'ok' not in alone:
        rep.fail('observer-alone-fails:%s' % kind, case, alone)
        return
    pf, pa = full_cap.persisted(), alone_cap.persisted()
    if pf != pa:
        detail = {}
        if isinstance(pf, dict):
            detail = {'files_full': sorted(pf), 'files_alone': sorted(pa),
                      'differing': [k for k in pa if pf.get(k) != pa[k]][:5]}
        else:
            detail = {'len_full': len(pf or b''), 'len_alone': len(pa or b'')}
        rep.fail('incomplete-capture:%s' % kind, case, detail)
    # the same Flow object processed a second time (a checkpoint: after its directory was removed, so that it saves again):
    # the observer is as transparent and captures as completely as the first time
    # (a join step owns a key-value file that it closes when its run ends: it is good for one run, like a zip dumper)
    if kind in ('checkpoint', 'dump_to_path', 'dump_to_path_json') and idx % 2 == 0 and not any(l.startswith('join') for l, _ in pre + suf):
        re_cap = Capture(kind, ctx.scratch, 'r%d' % idx)
        def fresh_source(package):
            # a source that *adds* its resources to whatever is upstream (as load and iterables do): every run starts from
            # the same data - steps may edit rows and descriptors in place - and a source executed twice in one run shows
            for r in copy.deepcopy(desc)['resources']:
                package.pkg.add_resource(r)
            yield package.pkg
            yield from package
            for rws in rows:
                yield iter(copy.deepcopy(rws))
        flow = Flow(fresh_source, *([f() for _, f in pre] + re_cap.steps() + [f() for _, f in suf]))
        second = None
        try:
            with quiet():
                flow.results(on_error=None)
                if kind == 'checkpoint':
                    import shutil
                    shutil.rmtree(os.path.join(re_cap.dir, 'cp'), ignore_errors=True)
                res2, dp2, _ = flow.results(on_error=None)
            second = {'ok': canon.enc_pkg(dp2.descriptor, res2)}
        except Exception as e:  # noqa
            rep.fail('same-flow-object-second-run-fails:%s' % kind, case, repr(e)[:300])
        if second is not None:
            if proj(second) != proj(without):
                rep.fail('not-transparent-on-second-run:%s' % kind, case, {'second': proj(second), 'without': proj(without)})
            elif re_cap.persisted() != pa:
                rep.fail('incomplete-capture-on-second-run:%s' % kind, case, {})
    total_rows_at_position = sum(len(r['rows']) for r in alone['ok'])
    # what a file dumper persisted can be read back, resource by resource, with as many rows as passed its position
    if kind in ('dump_to_path', 'dump_to_path_json', 'dump_to_zip') and isinstance(pf, dict) and 'datapackage.json' in pf:
        try:
            dpj = json.loads(pf['datapackage.json'].decode('utf-8'))
            for rdesc, at_pos in zip(dpj['resources'], alone['ok']):
                raw = pf.get(rdesc['path'])
                if raw is None:
                    rep.fail('persisted-file-missing:%s' % kind, case, {'path': rdesc['path']})
                    continue
                if rdesc.get('format') == 'json':
                    n_rows = len(json.loads(raw.decode('utf-8')))
                else:
                    import csv as _csv
                    import io as _io
                    n_rows = max(0, len(list(_csv.reader(_io.StringIO(raw.decode('utf-8'), newline='')))) - 1)
                if n_rows != len(at_pos['rows']):
                    rep.fail('persisted-row-count:%s' % kind, case, {'resource': rdesc['name'], 'file_rows': n_rows,
                                                                     'rows_at_position': len(at_pos['rows'])})
        except Exception as e:  # noqa
            rep.fail('persisted-file-not-readable:%s' % kind, case, {'error': repr(e)[:200]})
    if kind == 'finalizer':
        if len(full_cap.calls) != 1:
            rep.fail('finalizer:fired-%d-times' % len(full_cap.calls), case, full_cap.calls)
        elif full_cap.calls[0][1] != total_rows_at_position:
            rep.fail('finalizer:fired-before-last-row', case, {'rows_seen_at_callback': full_cap.calls[0][1],
                                                               'rows_at_position': total_rows_at_position})
    if kind == 'printer':
        n_res = len(alone['ok'])
        heads = [c for c in full_cap.calls if c[0] == 'h']
        tabs = [c for c in full_cap.calls if c[0] == 't']
        if len(heads) != n_res or len(tabs) != n_res:
            rep.fail('printer:not-every-resource-reported', case, {'headers': len(heads), 'tables': len(tabs), 'resources': n_res})
    if kind == 'update_stats' and with_obs['stats'].get('marker') != 1:
        rep.fail('update_stats:not-reported', case, with_obs['stats'])
    # correspondence: the stream file is the staged output of the prefix (model side: the real prefix output
    # is what the fusion theorem says the observer must have logged)
    if kind == 'stream':
        lines = [ln for ln in pf.decode('utf-8').split('\n')]
        got = parse_stream(lines)
        want = [[canon.norm_row(row) for row in r['rows']] for r in alone['ok']]
        rep.corr('observe:stream', case, got, want)


PERSISTING = ['dump_to_path', 'dump_to_path_json', 'dump_to_zip', 'stream', 'checkpoint']


def committed(cap):
    """the artefact whose presence says "this observer's capture is there": descriptor of a dump, final name of a stream"""
    k = cap.kind
    try:
        if k in ('dump_to_path', 'dump_to_path_json'):
            return os.path.exists(os.path.join(cap.dir, 'datapackage.json'))
        if k == 'dump_to_zip':
            p = os.path.join(cap.dir, 'out.zip')
            if not os.path.exists(p):
                return False
            try:
                with zipfile.ZipFile(p) as z:
                    return 'datapackage.json' in z.namelist()
            except zipfile.BadZipFile:
                return False
        if k == 'stream':
            return os.path.exists(os.path.join(cap.dir, 'stream.ndjson'))
        if k == 'checkpoint':
            return os.path.exists(os.path.join(cap.dir, 'cp', 'stream.ndjson'))
    except OSError:
        return False
    return False


def failing_suffix_case(ctx, rng, idx):
    """a later step fails while the rows stream: whatever capture the observer leaves committed is the complete stream at
    its position (or there is none) - never a partial one that a later run or another tool would take for the whole"""
    rep = ctx.report
    desc, rows, names = gen_base(rng)
    pre = prefix_steps(rng)
    kind = PERSISTING[idx % len(PERSISTING)]
    total = sum(len(r) for r in rows)
    if total == 0:
        return
    fail_at = rng.choice([1, total // 2 + 1, total]) if rng.random() < 0.8 else rng.randint(1, total)
    seen = [0]

    def boom(row):
        seen[0] += 1
        if seen[0] == fail_at:
            raise RuntimeError('downstream fault')
        return row
    case = {'observer': kind, 'prefix': [l for l, _ in pre], 'suffix': 'row step failing at row %d of %d' % (fail_at, total),
            'rows_per_resource': [len(r) for r in rows]}
    cap = Capture(kind, ctx.scratch, 'x%d' % idx)
    res = run_flow(desc, rows, [f() for _, f in pre] + cap.steps() + [boom])
    rep.case('observe-then-fail:' + kind, case, nontrivial='err' in res)
    if 'ok' in res:
        return      # the prefix dropped the rows before the failing position
    if not committed(cap):
        rep.hist('after_failure', 'nothing committed')
        return
    rep.hist('after_failure', 'committed')
    alone_cap = Capture(kind, ctx.scratch, 'y%d' % idx)
    alone = run_flow(desc, rows, [f() for _, f in pre] + alone_cap.steps())
    if 'ok' not in alone:
        return
    if cap.persisted() != alone_cap.persisted():
        rep.fail('partial-capture-committed-after-downstream-failure:%s' % kind, case,
                 {'committed': True, 'equals_full_stream': False})


def _typed_rows(alone):
    return [[dict((k, v) for k, v in row) for row in r['rows']] for r in alone['ok']]


def _plain_row(r):
    return r


def parse_stream(lines):
    """resources of a stream.ndjson: descriptor line, then rows, blank line after each resource"""
    from dataflows.helpers.extended_json import ejson
    it = iter(lines)
    desc = json.loads(next(it))
    out = []
    for _ in desc['resources']:
        cur = []
        for ln in it:
            if ln.strip() == '':
                break
            cur.append(canon.norm_row(canon.enc_row(ejson.loads(ln))))
        out.append(cur)
    return out


def run(ctx):
    rep = ctx.report
    rep.rule = ('observer kind x insertion after a random prefix x discarding suffix (delete_resource by index/list, filters '
                'that drop everything or some rows, concatenate, join with/without source_delete, deduplicate, sort, a '
                'row-dropping user step) over 2-3 resources of 0-130 rows; captured content is compared byte-for-byte with '
                'the same observer run with nothing after it; non-trivial = ran with at least one row')
    rep.assumptions = ['downstream user code consumes the streams it is given (Draining hypothesis)']
    rng = ctx.rng('main')
    for idx in range(ctx.n(300, 4000)):
        one_case(ctx, rng, idx)
    rngf = ctx.rng('failing-suffix')
    for idx in range(ctx.n(60, 800)):
        failing_suffix_case(ctx, rngf, idx)

    def search(disagreements):
        rng2 = ctx.rng('search')
        before = len(rep.oracle_failures)
        for idx in range(ctx.n(1500, 8000)):
            one_case(ctx, rng2, 100000 + idx)
            if len(rep.oracle_failures) > before:
                o = rep.oracle_failures[before]
                return {'signature': o['signature'], 'case': o['case'], 'detail': o['detail']}
        return None
    return ctx.finish(search=search)


def replay(payload):
    print(json.dumps(payload.get('input'), indent=1)[:3000])
    return 0
