"""C19 — a dump descriptor is written only after its data files are complete."""
import concurrent.futures
import hashlib
import json
import os
import shutil

from .. import fsfault


def build(params):
    import contextlib
    import io
    import dataflows as DF
    from dataflows import Flow
    sources = []
    for i, n in enumerate(params['rows']):
        sources.append([{'id': j, 'name': 'row %d/%d — ü' % (i, j), 'amount': (j * 3) % 7} for j in range(max(n, 1))])

    def trim(rows):
        idx = int(rows.res.name.split('_')[1]) - 1
        for r in rows:
            if params['rows'][idx] > 0:
                yield r
    suffix = []
    if params.get('suffix') == 'delete_first':
        # the dump is not the last step: a later step drops a resource the dump has written
        suffix = [DF.delete_resource('res_1')]
    elif params.get('suffix') == 'row_fn':
        suffix = [lambda row: None]
    with contextlib.redirect_stdout(io.StringIO()):
        Flow(*sources, trim, DF.dump_to_path(params['out'], format=params['format'],
                                             add_filehash_to_path=bool(params.get('filehash'))), *suffix).process()
    return {'done': True}


def inspect(out):
    """→ None when no parseable descriptor is present, else list of problems with the listed files"""
    dp = os.path.join(out, 'datapackage.json')
    if not os.path.exists(dp):
        return None
    try:
        with open(dp, 'rb') as f:
            desc = json.loads(f.read().decode('utf-8'))
    except ValueError:
        return None
    problems = []
    if not isinstance(desc, dict) or 'resources' not in desc:
        return [{'descriptor': 'parses but has no resources'}]
    for r in desc['resources']:
        path = os.path.join(out, r['path'])
        if not os.path.exists(path):
            problems.append({'resource': r['name'], 'problem': 'listed file missing'})
            continue
        with open(path, 'rb') as f:
            data = f.read()
        if 'bytes' in r and len(data) != r['bytes']:
            problems.append({'resource': r['name'], 'problem': 'size', 'recorded': r['bytes'], 'actual': len(data)})
        if 'hash' in r and hashlib.md5(data).hexdigest() != r['hash']:
            problems.append({'resource': r['name'], 'problem': 'hash'})
    return problems


def project(trace):
    out = []
    for op in trace:
        kind, path = op[1], op[2]
        if kind == 'open':
            out.append(['create', path])
        elif kind == 'write':
            if not out or out[-1] != ['chunk', path]:
                out.append(['chunk', path])
        elif kind == 'close':
            out.append(['close', path])
    return out


def collapse(effects):
    out = []
    for e in effects:
        if e[0] == 'chunk' and out and out[-1] == e:
            continue
        out.append(e)
    return out


def shape_run(ctx, shape, fmt, idx, filehash=False, suffix=None, faults=False):
    rep = ctx.report
    base = os.path.join(ctx.scratch, 'dump%d' % idx)

    def fresh(tag):
        d = os.path.join(base, tag)
        os.makedirs(d, exist_ok=True)
        return d, {'rows': shape, 'format': fmt, 'out': os.path.join(d, 'out'), 'filehash': filehash, 'suffix': suffix}
    d0, p0 = fresh('baseline')
    b = fsfault.run_child('harness.props.c19:build', p0, p0['out'], d0, 'base', copy_bufsize=48)
    case0 = {'rows_per_resource': shape, 'format': fmt, 'add_filehash_to_path': filehash, 'steps_after_the_dump': suffix}
    if b['returncode'] != 0:
        raise RuntimeError('baseline dump failed: %r %s' % (b['returncode'], b['stderr']))
    N = len(b['trace'])
    rep.case('baseline', case0, key=['baseline', shape, fmt])
    rep.hist('ops_per_dump', N)
    probs = inspect(p0['out'])
    if probs is None:
        rep.fail('complete-dump-has-no-descriptor', case0, {})
    elif probs:
        rep.fail('complete-dump-inconsistent', case0, probs)
    with open(os.path.join(p0['out'], 'datapackage.json')) as f:
        desc = json.load(f)
    if ctx.model.available() and not filehash:
        files = [{'path': r['path'], 'chunks': ['x']} for r in desc['resources']]
        mo = ctx.model.run([{'op': 'dumpfx', 'files': files, 'desc_path': 'datapackage.json'}])[0]
        rep.corr('fs-trace', case0, project(b['trace']), collapse(mo['effects']))
    elif not filehash:
        rep.disagreements.append({'op': 'fs-trace', 'case': 'driver unavailable', 'real': None, 'model': None})

    def kill_point(k):
        d, p = fresh('kill%d' % k)
        r = fsfault.run_child('harness.props.c19:build', p, p['out'], d, 'kill', kill_at=k, copy_bufsize=48)
        probs = inspect(p['out'])
        listing = sorted(os.listdir(p['out'])) if os.path.isdir(p['out']) else []
        shutil.rmtree(d, ignore_errors=True)
        return k, r['returncode'], probs, listing
    with concurrent.futures.ThreadPoolExecutor(max_workers=12) as ex:
        results = list(ex.map(kill_point, range(N + 1)))
    for k, rc, probs, listing in results:
        op = b['trace'][k][1:3] if k < N else ['<after-last>']
        case = {'rows_per_resource': shape, 'format': fmt, 'add_filehash_to_path': filehash, 'steps_after_the_dump': suffix, 'kill_before_op': k, 'op': op}
        rep.case('kill', case, key=['kill', shape, fmt, filehash, suffix, k])
        rep.hist('descriptor_parseable_after_kill', probs is not None)
        if k < N and rc != -9:
            rep.notes.append('kill point %d of %s: child ended with %r' % (k, shape, rc))
            continue
        if probs:
            rep.fail('descriptor-present-before-data-complete', case, {'problems': probs, 'listing': listing})
    if faults:
        # an I/O error (not a crash) at every operation: the dump may fail or cope, but a descriptor that is there afterwards
        # still vouches for every file it lists
        def fault_point(k):
            d, p = fresh('fault%d' % k)
            r = fsfault.run_child('harness.props.c19:build', p, p['out'], d, 'fault', fail_at=k, copy_bufsize=48)
            probs = inspect(p['out'])
            listing = sorted(os.listdir(p['out'])) if os.path.isdir(p['out']) else []
            shutil.rmtree(d, ignore_errors=True)
            return k, r['returncode'], probs, listing
        with concurrent.futures.ThreadPoolExecutor(max_workers=12) as ex:
            results = list(ex.map(fault_point, range(N)))
        for k, rc, probs, listing in results:
            case = {'rows_per_resource': shape, 'format': fmt, 'add_filehash_to_path': filehash, 'steps_after_the_dump': suffix,
                    'io_error_at_op': k, 'op': b['trace'][k][1:3], 'dump_reported_success': rc == 0}
            rep.case('io-error', case, key=['fault', shape, fmt, filehash, suffix, k])
            if probs:
                rep.fail('descriptor-vouches-for-a-damaged-file-after-io-error', case, {'problems': probs, 'listing': listing})
    shutil.rmtree(base, ignore_errors=True)


def run(ctx):
    rep = ctx.report
    rep.rule = ('dump_to_path of 1-3 resources x 0-N rows x csv/json into a fresh directory; a real SIGKILL before every '
                'file operation in the output directory (create, every 48-byte chunk of every copy, close) and after the '
                'last; after each: if datapackage.json parses, every listed file must exist with the recorded size and md5; '
                'every case non-trivial; distinct by (shape, format, point)')
    rep.assumptions = ['a killed process performs no further effects; writes to one file take effect in order',
                       'chunking of shutil.copy is forced small by the harness to expose mid-copy states']
    shapes = [([2], 'csv'), ([1, 0], 'json'), ([3, 1, 2], 'csv')] if ctx.quick else \
        [([0], 'csv'), ([2], 'csv'), ([1, 0], 'json'), ([3, 1, 2], 'csv'), ([3, 1, 2], 'json'), ([40], 'csv'), ([10, 0, 25], 'json')]
    for idx, (shape, fmt) in enumerate(shapes):
        shape_run(ctx, shape, fmt, idx)
    # the dump with hashed paths (kills and I/O errors), and the dump followed by steps that drop / edit what it wrote
    shape_run(ctx, [3, 2], 'csv', 50, filehash=True, faults=True)
    shape_run(ctx, [2, 2], 'csv', 51, suffix='delete_first')
    shape_run(ctx, [2], 'json', 52, suffix='row_fn', faults=True)
    if not ctx.quick:
        shape_run(ctx, [3, 1, 2], 'json', 53, filehash=True, faults=True)
        shape_run(ctx, [3, 0, 2], 'csv', 54, suffix='delete_first', faults=True)

    def search(disagreements):
        before = len(rep.oracle_failures)
        for idx, (shape, fmt) in enumerate([([4, 2], 'csv'), ([1, 1, 1], 'json')]):
            shape_run(ctx, shape, fmt, 100 + idx)
            if len(rep.oracle_failures) > before:
                o = rep.oracle_failures[before]
                return {'signature': o['signature'], 'case': o['case'], 'detail': o['detail']}
        return None
    return ctx.finish(search=search)


def replay(payload):
    print(json.dumps(payload.get('input'), indent=1)[:3000])
    return 0
