"""C20 — dump_to_sql leaves the table in the state its mode prescribes."""
import copy
import datetime
import json
import os

import dataflows as DF
from dataflows import Flow
from sqlalchemy import create_engine, text

from .. import canon, fast, stepcorr as S  # noqa: F401
from ..common import quiet


def gen_rows(rng, n, with_objects):
    rows = []
    for _ in range(n):
        r = {'id': rng.choice([1, 2, 3, 4, 5]), 'grp': rng.choice(['a', 'b', None]), 'v': rng.choice(['x', 'y', 'zz', 'ü']),
             'n': rng.randint(-3, 50)}
        if with_objects:
            r['l'] = rng.choice([[1, 2], [], ['q', None], None, None])
            r['o'] = rng.choice([{'k': 1}, {}, {'a': [1]}, None, None])
        rows.append(r)
    return rows


def read_table(engine, name):
    with engine.connect() as c:
        res = c.execute(text('select * from "%s"' % name))
        cols = list(res.keys())
        return [dict(zip(cols, r)) for r in res]


def canon_db_row(r, with_objects):
    out = {}
    for k, v in r.items():
        if with_objects and k in ('l', 'o') and isinstance(v, str):
            v = json.loads(v)
        out[k] = v
    return canon.norm_row(canon.enc_row(out))


def history_case(ctx, rng, idx, pending):
    rep = ctx.report
    db = os.path.join(ctx.scratch, 'h%d.db' % idx)
    engine = create_engine('sqlite:///' + db)
    with_objects = rng.random() < 0.4
    key_choice = rng.choice([['id'], ['id', 'grp'], ['grp']])
    pk = rng.random() < 0.5
    ndumps = rng.randint(1, 5)
    dumps = []
    hist_case = {'dumps': [], 'objects': with_objects}
    ok = True
    upfront = rng.random() < 0.4     # all dump steps constructed before the first one runs
    hist_case['built_up_front'] = upfront
    plans = []
    # the caller may hand the very same table-configuration dict to several dump_to_sql calls
    share_cfg = rng.random() < 0.5
    hist_case['shared_config_objects'] = share_cfg
    shared = {}
    # rows may reach the dumper *sparse*: dicts that leave out the keys of their null cells (JSON-style records, a user step
    # that builds fresh dicts).  A missing cell is a null cell: it overwrites what an update finds in the table
    sparse = rng.random() < 0.35
    hist_case['rows_leave_out_null_cells'] = sparse

    def sparse_step(rows):
        for r in rows:
            yield {k: v for k, v in r.items() if v is not None}
    for d in range(ndumps):
        mode = rng.choice(['rewrite', 'append', 'update', 'update'])
        rows = gen_rows(rng, rng.choice([0, 1, 2, 5, 9]), with_objects)
        if sparse:
            for r in rows:
                for k in ('v', 'n'):
                    if rng.random() < 0.3:
                        r[k] = None
        if pk and mode == 'rewrite' and rng.random() < 0.5:
            # a rewrite recreates the table: the stream may come with another primary key from here on
            key_choice = rng.choice([['id'], ['id', 'grp'], ['grp']])
        if pk:
            # the table carries a PRIMARY KEY constraint: plain inserts need distinct, non-null keys
            for r in rows:
                r['grp'] = r['grp'] or 'a'
            if mode == 'append':
                mode = 'update'
            if mode == 'rewrite':
                seen, uniq = set(), []
                for r in rows:
                    k = tuple(r[x] for x in key_choice)
                    if k not in seen:
                        seen.add(k)
                        uniq.append(r)
                rows = uniq
        bs = rng.choice([1, 2, 1000])
        bloom = rng.random() < 0.5
        cfg = {'resource-name': 'res_1', 'mode': mode}
        if mode == 'update' and not pk:
            cfg['update_keys'] = list(key_choice)
        if share_cfg:
            cfg = shared.setdefault(json.dumps(cfg, sort_keys=True), cfg)
        steps = [copy.deepcopy(rows) or [dict(id=0, grp='a', v='x', n=0, **({'l': [], 'o': {}} if with_objects else {}))],
                 DF.set_type('grp', type='string')]
        empty = not rows
        if empty:
            steps.append(DF.filter_rows(equals=[{'id': -1}]))
        if pk:
            steps.append(DF.set_primary_key(list(key_choice)))
        if sparse:
            # the column types are pinned (a sample that holds only nulls would infer another type): the history keeps one schema
            steps += [DF.set_type('v', type='string'), DF.set_type('n', type='integer'), sparse_step]
        desc = {'mode': mode, 'keys': key_choice if mode == 'update' else None, 'keys_from_pk': pk, 'rows': canon._plain(rows),
                'batch_size': bs, 'bloom': bloom}
        mk = (lambda steps=steps, cfg=cfg, bs=bs, bloom=bloom: Flow(*steps, DF.dump_to_sql(
            {'t': (cfg if share_cfg else copy.deepcopy(cfg))}, engine=engine, updated_column='upd', batch_size=bs, use_bloom_filter=bloom)))
        plans.append((mode, rows, desc, mk() if upfront else mk, list(key_choice)))
    for d, (mode, rows, desc, flow, dump_keys) in enumerate(plans):
        hist_case['dumps'].append(desc)
        try:
            with quiet():
                res, dp, _ = (flow if upfront else flow()).results(on_error=None)
        except Exception as e:  # noqa
            rep.case('dump', hist_case, nontrivial=False)
            rep.fail('dump-raises:%s' % mode, copy.deepcopy(hist_case), repr(e)[:300])
            ok = False
            break
        down = res[0]
        flags = [r.pop('upd') for r in down]
        table = read_table(engine, 't')
        dumps.append({'mode': mode, 'keys': list(dump_keys), 'rows': [canon.enc_row(r) for r in rows]})
        rep.case('dump:' + mode, {'history': copy.deepcopy(hist_case), 'dump_index': d}, key=[idx, d], nontrivial=bool(rows))
        rep.hist('mode', mode)
        # ---- oracle, straight from the property statement
        spec_table, spec_flags = spec(hist_case['dumps'])
        # a table is a set of rows: SELECT * order is the engine's business (rowid / primary-key order)
        have = sorted((canon_db_row(r, with_objects) for r in table), key=lambda r_: json.dumps(r_, sort_keys=True))
        want = sorted((canon.norm_row(canon.enc_row(r)) for r in spec_table), key=lambda r_: json.dumps(r_, sort_keys=True))
        if have != want:
            sig = 'table-state:%s' % mode
            if len(have) != len(want):
                sig += ':row-count'
            rep.fail(sig, {'history': copy.deepcopy(hist_case)}, {'expected': want, 'got': have})
        if flags != spec_flags:
            rep.fail('flags:%s' % mode, {'history': copy.deepcopy(hist_case)}, {'expected': spec_flags, 'got': flags})
        if [canon.norm_row(canon.enc_row(r)) for r in down] != [canon.norm_row(canon.enc_row(r)) for r in rows]:
            rep.fail('downstream-rows-changed', {'history': copy.deepcopy(hist_case)},
                     {'expected': canon._plain(rows), 'got': canon._plain(down)})
        pending.append(({'history': copy.deepcopy(hist_case), 'dump_index': d}, copy.deepcopy(dumps),
                        {'table': have, 'flags': flags}))
    engine.dispose()
    if os.path.exists(db):
        os.unlink(db)
    return ok


def spec(dump_descs):
    """rewrite ↦ rows; append ↦ old ++ rows; update ↦ fold upsert; flags of the last dump"""
    table, flags = [], []
    for d in dump_descs:
        rows = [undo_plain(r) for r in d['rows']]
        flags = []
        if d['mode'] == 'rewrite':
            table = [dict(r) for r in rows]
            flags = [False] * len(rows)
        elif d['mode'] == 'append':
            table = table + [dict(r) for r in rows]
            flags = [False] * len(rows)
        else:
            keys = d['keys']
            for r in rows:
                k = tuple(r[x] for x in keys)
                hit = [i for i, t in enumerate(table) if tuple(t[x] for x in keys) == k]
                if hit:
                    for i in hit:
                        table[i] = dict(r)
                    flags.append(True)
                else:
                    table.append(dict(r))
                    flags.append(False)
    return table, flags


def undo_plain(r):
    out = {}
    for k, v in r.items():
        out[k] = unplain(v)
    return out


def unplain(v):
    if isinstance(v, dict) and set(v) == {'$int'}:
        return int(v['$int'])
    if isinstance(v, list):
        return [unplain(x) for x in v]
    if isinstance(v, dict):
        return {k: unplain(x) for k, x in v.items()}
    return v


def run(ctx):
    rep = ctx.report
    rep.rule = ('histories of 1-5 dumps into one SQLite table x mode per dump {rewrite, append, update} x update keys '
                '(explicit or from the primary key; single, composite, with nulls) x batch size {1,2,1000} x bloom filter '
                'on/off x array/object columns; SELECT * after every dump, flags and downstream rows checked against the '
                'specification and the model; non-trivial = a dump with at least one row')
    rep.assumptions = ["tableschema_sql's writer (buffering, bloom filter) is third-party: covered by correspondence",
                       'SQL equality on update keys = value equality on ints/strings/null']
    rng = ctx.rng('main')
    pending = []
    for idx in range(ctx.n(150, 2000)):
        history_case(ctx, rng, idx, pending)
    if ctx.model.available():
        outs = ctx.model.run([{'op': 'sqlhist', 'dumps': dumps} for _, dumps, _ in pending])
        for (case, dumps, real), mo in zip(pending, outs):
            last = mo['after'][-1]
            rep.corr('sqlhist', case, real, {'table': sorted((canon.norm_row(r) for r in last['table']), key=lambda r_: json.dumps(r_, sort_keys=True)), 'flags': last['flags']})
    else:
        rep.disagreements.append({'op': 'sqlhist', 'case': 'driver unavailable', 'real': None, 'model': None})
    from .. import pycorr
    pycorr.run(ctx)

    def search(disagreements):
        rng2 = ctx.rng('search')
        before = len(rep.oracle_failures)
        for idx in range(ctx.n(1000, 6000)):
            history_case(ctx, rng2, 10 ** 6 + idx, [])
            if len(rep.oracle_failures) > before:
                o = rep.oracle_failures[before]
                return {'signature': o['signature'], 'case': o['case'], 'detail': o['detail']}
        return None
    return ctx.finish(search=search)


def replay(payload):
    print(json.dumps(payload.get('input'), indent=1)[:3000])
    return 0
