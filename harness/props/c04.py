"""C04 — a failing step never yields a successful run."""
import copy
import json
import os
import subprocess
import sys

import dataflows as DF
from dataflows import Flow
from dataflows.base.exceptions import ProcessorError
from dataflows.base.schema_validator import ValidationError
from tableschema.exceptions import CastError, UniqueKeyError

from .. import canon, fast, stepcorr as S  # noqa: F401
from ..common import quiet, VERIF


class Private(Exception):
    pass


EXC = {
    'ValueError': lambda: ValueError('boom'),
    'KeyError': lambda: KeyError('boom'),
    'Private': lambda: Private('boom'),
    'castError': lambda: CastError('bad cast', errors=[CastError('inner')]),
    'castErrorBare': lambda: CastError('bad cast'),          # no nested errors (what Field.cast_value raises)
    'castErrorMany': lambda: CastError('bad casts', errors=[CastError('i1'), CastError('i2')]),
    'uniqueKeyError': lambda: UniqueKeyError('dup'),
    'validationError': lambda: ValidationError('r', {'a': 1}, 0, None),
    'AssertionError': lambda: AssertionError('boom'),
    'RuntimeError': lambda: RuntimeError('boom'),
    # escaping a generator it is turned into a RuntimeError (PEP 479); escaping a plain call it must not be taken
    # for the end of a stream
    'StopIteration': lambda: StopIteration('boom'),
}
MODEL_CLS = {'castError': 'castError', 'castErrorBare': 'castError', 'castErrorMany': 'castError', 'uniqueKeyError': 'uniqueKeyError', 'validationError': 'validationError'}


def make_fault(kind, exc, at):
    """a step raising `exc` (a pre-built exception object) at row `at` / at exhaustion / in the package phase"""
    if kind == 'row-fn':
        seen = [0]

        def f(row):
            if row.get('a') is not None and seen[0] == at:
                raise exc
            seen[0] += 1
        return f
    if kind == 'rows-fn':
        def f(rows):
            for i, r in enumerate(rows):
                if i == at:
                    raise exc
                yield r
        return f
    if kind == 'rows-fn-end':
        def f(rows):
            yield from rows
            raise exc
        return f
    if kind == 'package-fn-pre':
        def f(package):
            raise exc
            yield package.pkg  # noqa
        return f
    if kind == 'package-fn-end':
        def f(package):
            yield package.pkg
            yield from package
            raise exc
        return f
    if kind == 'processor-pkg':
        class P(DF.DataStreamProcessor):
            def process_datapackage(self, dp):
                raise exc
        return P()
    if kind == 'processor-row':
        class P(DF.DataStreamProcessor):
            def __init__(self):
                super().__init__()
                self.n = 0

            def process_row(self, row):
                if self.n == at:
                    raise exc
                self.n += 1
                return row
        return P()
    raise ValueError(kind)


PHASE = {'source-iter': 'streaming', 'row-fn': 'streaming', 'rows-fn': 'streaming', 'rows-fn-end': 'streaming', 'package-fn-pre': 'package',
         'package-fn-end': 'streaming', 'processor-pkg': 'package', 'processor-row': 'streaming'}


def filler(rng):
    k = rng.choice(['add', 'filter', 'printer', 'sort', 'dup', 'validate', 'rowfn', 'settype'])
    if k == 'add':
        return k, DF.add_field('z%d' % rng.randint(0, 999), 'integer', 1)
    if k == 'filter':
        return k, DF.filter_rows(not_equals=[{'a': -1}])
    if k == 'printer':
        return k, DF.printer(num_rows=1)
    if k == 'sort':
        return k, DF.sort_rows('{a}')
    if k == 'dup':
        return k, DF.duplicate(target_name='c%d' % rng.randint(0, 999))
    if k == 'validate':
        return k, DF.validate()
    if k == 'settype':
        return k, DF.set_type('a', type='integer')

    def fn(row):
        row['b'] = row['b']
    return k, fn


def one_case(ctx, rng, idx, pending):
    rep = ctx.report
    n = rng.choice([1, 3, 7, 120, 230])
    data = [{'a': i, 'b': 'x%d' % i} for i in range(n)]
    kind = rng.choice(list(PHASE))
    cls = rng.choice(list(EXC))
    exc = EXC[cls]()
    at = rng.choice([0, n // 2, n - 1])
    npre, npost = rng.randint(0, 2), rng.randint(0, 3)
    labels, steps = [], []
    base = os.path.join(ctx.scratch, 'c%d' % idx)
    obs_before = os.path.join(base, 'before')
    steps.append(DF.dump_to_path(obs_before))
    labels.append('dump(before)')
    for _ in range(npre):
        l, s = filler(rng)
        labels.append(l)
        steps.append(s)
    fault_pos = len(steps) + 2   # 1-based, after the source
    if kind == 'source-iter':
        fault_pos = 1

        def failing_source(data=data, at=at, exc=exc):
            for i, r in enumerate(copy.deepcopy(data)):
                if i == at:
                    raise exc
                yield r
    else:
        steps.append(make_fault(kind, exc, at))
    labels.append('FAULT:%s@%s' % (kind, at))
    after = []
    for _ in range(npost):
        l, s = filler(rng)
        labels.append(l)
        steps.append(s)
    okind = rng.choice(['dump', 'dump_json', 'zip', 'stream', 'checkpoint'])
    marker = None
    if okind in ('dump', 'dump_json'):
        d = os.path.join(base, 'after')
        steps.append(DF.dump_to_path(d, format='json' if okind == 'dump_json' else 'csv'))
        marker = os.path.join(d, 'datapackage.json')
    elif okind == 'zip':
        os.makedirs(base, exist_ok=True)
        steps.append(DF.dump_to_zip(os.path.join(base, 'after.zip')))
        marker = ('zip', os.path.join(base, 'after.zip'))
    elif okind == 'stream':
        steps.append(DF.stream(os.path.join(base, 'after', 'stream.ndjson')))
        marker = os.path.join(base, 'after', 'stream.ndjson')
    else:
        steps.append(DF.checkpoint('cp', checkpoint_path=os.path.join(base, 'after')))
        marker = os.path.join(base, 'after', 'cp', 'stream.ndjson')
    labels.append('%s(after)' % okind)
    api = rng.choice(['results', 'process'])
    case = {'pipeline': labels, 'n': n, 'fault': kind, 'class': cls, 'at': at, 'api': api}
    outcome, cause_ok = 'returned', None
    try:
        with quiet():
            f = Flow(failing_source() if kind == 'source-iter' else copy.deepcopy(data), *steps)
            if api == 'results':
                f.results()
            else:
                f.process()
    except ProcessorError as e:
        outcome = 'processorError'
        cause_ok = e.cause is exc
        if cls == 'StopIteration' and isinstance(e.cause, RuntimeError) and e.cause.__cause__ is exc:
            cause_ok = True      # PEP 479: what a StopIteration escaping a generator becomes
        if kind == 'source-iter':
            cause_ok = True      # a failing source iterator is re-wrapped by datapackage's storage layer
    except Exception as e:  # noqa
        outcome = 'raisedOther:%s' % type(e).__name__
    rep.case('fault:%s:%s' % (kind, cls), case, key=[labels, n, kind, cls, at, api])
    rep.hist('outcome', outcome)
    rep.hist('class', cls)
    rep.hist('fault_kind', kind)
    if outcome == 'returned':
        rep.fail('returned-normally:%s:%s' % (PHASE[kind], cls), case, {})
    elif outcome != 'processorError':
        rep.fail('not-a-ProcessorError:%s:%s' % (PHASE[kind], cls), case, {'outcome': outcome})
    elif not cause_ok:
        rep.fail('cause-is-not-the-original:%s:%s' % (PHASE[kind], cls), case, {})
    # no later commit
    committed = False
    if isinstance(marker, tuple):
        try:
            import zipfile
            with zipfile.ZipFile(marker[1]) as z:
                committed = 'datapackage.json' in z.namelist()
        except Exception:
            committed = False
    else:
        committed = os.path.exists(marker)
    if committed:
        rep.fail('commit-after-failure:%s' % okind, case, {'marker': os.path.relpath(str(marker), ctx.scratch)})
    pending.append((case, {'op': 'fault', 'n': len(steps) + 1, 'phase': PHASE[kind], 'k': fault_pos,
                           'cls': MODEL_CLS.get(cls, 'other')},
                    {'outcome': outcome.split(':')[0], 'cause_is_original': bool(cause_ok)}))


def builtin_poison_case(ctx, rng, idx):
    """rows that make a built-in raise: the run must fail with that step's exception as cause"""
    rep = ctx.report
    n = rng.choice([3, 8, 150])
    at = rng.choice([0, n // 2, n - 1])
    kind = rng.choice(['set_type', 'filter-missing-key', 'computed-typeerror', 'concat-empty-row', 'load-cast', 'load-cast',
                       'load-surplus-cell', 'dedup-missing'])
    data = [{'a': str(i), 'b': i} for i in range(n)]
    base = os.path.join(ctx.scratch, 'p%d' % idx)
    if kind == 'set_type':
        data[at]['a'] = 'zz'
        step, want = DF.set_type('a', type='integer'), ValidationError
    elif kind == 'filter-missing-key':
        data = [dict(r) for r in data]
        step = DF.filter_rows(equals=[{'nokey': 1}])
        want = KeyError
    elif kind == 'computed-typeerror':
        data = [{'a': i, 'b': (('s' if i == at else i))} for i in range(n)]
        step, want = DF.add_computed_field(target='t', operation='sum', source=['a', 'b']), (TypeError, ValidationError, CastError)
    elif kind == 'concat-empty-row':
        data = [{'a': (None if i == at else i), 'b': None} for i in range(n)]
        if at == 0:
            data[0], data[-1] = data[-1], data[0]
        step, want = DF.concatenate({'a': [], 'b': []}), AssertionError
    elif kind == 'dedup-missing':
        def drop(rows):
            for i, r in enumerate(rows):
                if i == at:
                    r = {'b': r['b']}
                yield r
        data = [{'a': i, 'b': i} for i in range(n)]
        step, want = Flow(DF.set_primary_key(['a']), drop, DF.deduplicate()), KeyError
    else:
        # a data package on disk whose data does not match its schema: the cast error of the schema library
        os.makedirs(base, exist_ok=True)
        with open(os.path.join(base, 'd.csv'), 'w') as f:
            if kind == 'load-surplus-cell':
                # a structural problem: tableschema raises a CastError without nested errors
                f.write('a,b\n' + ''.join('%d,%d%s\n' % (i, i, ',9' if i == at else '') for i in range(n)))
            else:
                f.write('a,b\n' + ''.join('%s,%d\n' % ('zz' if i == at else str(i), i) for i in range(n)))
        with open(os.path.join(base, 'datapackage.json'), 'w') as f:
            json.dump({'name': 'p', 'resources': [{'name': 'd', 'path': 'd.csv', 'schema': {'fields': [
                {'name': 'a', 'type': 'integer'}, {'name': 'b', 'type': 'integer'}]}}]}, f)
        data = None
        step, want = DF.load(os.path.join(base, 'datapackage.json')), CastError
    after = os.path.join(base, 'after')
    steps = ([copy.deepcopy(data)] if data is not None else []) + [step, DF.dump_to_path(after)]
    case = {'poison': kind, 'n': n, 'at': at}
    outcome, cause = 'returned', None
    try:
        with quiet():
            Flow(*steps).process()
    except ProcessorError as e:
        outcome, cause = 'processorError', e.cause
    except Exception as e:  # noqa
        outcome = 'raisedOther:%s' % type(e).__name__
    rep.case('poison:' + kind, case)
    rep.hist('outcome', outcome)
    if outcome == 'returned':
        rep.fail('returned-normally:builtin:%s' % kind, case, {})
    elif outcome != 'processorError':
        rep.fail('not-a-ProcessorError:builtin:%s' % kind, case, {'outcome': outcome})
    elif not isinstance(cause, want):
        rep.fail('wrong-cause:builtin:%s' % kind, case, {'cause': repr(cause)[:200]})
    if os.path.exists(os.path.join(after, 'datapackage.json')):
        rep.fail('commit-after-failure:dump', case, {})


PAR_SCRIPT = r'''
import sys, json
sys.path.insert(0, %r)
from dataflows import Flow, parallelize
from dataflows.base.exceptions import ProcessorError
kind, n, at, nproc = sys.argv[1], int(sys.argv[2]), int(sys.argv[3]), int(sys.argv[4])
exc = ValueError('boom')
def src():
    for i in range(n):
        if kind == 'source' and i == at: raise exc
        yield {'a': i}
def boom(rows):
    for i, r in enumerate(rows):
        if kind == 'rows' and i == at: raise exc
        yield r
def pred(row):
    if kind == 'predicate' and row['a'] == at: raise exc
    return True
def work(row): row['a'] += 1
try:
    Flow(src(), boom, parallelize(work, num_processors=nproc, predicate=pred)).process()
    print(json.dumps({'outcome': 'returned'}))
except ProcessorError as e:
    print(json.dumps({'outcome': 'processorError', 'cause_ok': e.cause is exc}))
except BaseException as e:
    print(json.dumps({'outcome': 'raisedOther:' + type(e).__name__}))
'''


def parallelize_case(ctx, rng):
    rep = ctx.report
    kind = rng.choice(['rows', 'predicate', 'source'])
    n = rng.choice([5, 150])
    at = rng.choice([1, n // 2, n - 1]) if kind != 'source' else rng.choice([101, n - 1]) if n > 101 else n - 1
    nproc = rng.choice([1, 2, 3])
    case = {'parallelize-after-fault': kind, 'n': n, 'at': at, 'workers': nproc}
    script = os.path.join(ctx.scratch, 'par.py')
    with open(script, 'w') as f:
        f.write(PAR_SCRIPT % os.environ.get('VERIF_REPO', '/repo'))
    try:
        p = subprocess.run([sys.executable, '-W', 'ignore', script, kind, str(n), str(at), str(nproc)],
                           stdout=subprocess.PIPE, stderr=subprocess.DEVNULL, timeout=40, text=True)
        lines = [ln for ln in p.stdout.splitlines() if ln.startswith('{')]
        out = json.loads(lines[-1]) if lines else {'outcome': 'no-output(exit %s)' % p.returncode}
    except subprocess.TimeoutExpired:
        out = {'outcome': 'hang'}
    rep.case('parallelize-fault:' + kind, case)
    rep.hist('outcome', out['outcome'])
    if kind == 'source' and at < 100:
        return
    # a failing source iterator is re-wrapped by the storage layer of datapackage: identity is only required
    # for failures raised by steps
    if out['outcome'] != 'processorError' or (kind != 'source' and not out.get('cause_ok')):
        rep.fail('parallelize:upstream-failure-%s' % out['outcome'].split(':')[0], case, out)


def run(ctx):
    rep = ctx.report
    rep.rule = ('fault matrix: fault kind {row fn, rows fn mid-stream, rows fn at exhaustion, package fn before/after the '
                'streams, processor package phase, processor row} x exception class {ValueError, KeyError, private, '
                'tableschema CastError/UniqueKeyError, dataflows ValidationError, AssertionError, RuntimeError} x row '
                'position {first, middle, last} x 0-2 steps before / 0-3 after x observer after the fault {dump csv/json, '
                'zip, stream, checkpoint} x results()/process(); plus poisoned rows for built-ins and upstream failures '
                'reaching parallelize (subprocess, time limit); every case is non-trivial; distinct by configuration')
    rep.assumptions = ['generator finalisation (GeneratorExit) of abandoned generators is CPython behaviour',
                       "parallelize's row function failing inside a worker is printed and ignored by design; it is not a step"]
    rng = ctx.rng('main')
    pending = []
    for idx in range(ctx.n(500, 6000)):
        one_case(ctx, rng, idx, pending)
    for idx in range(ctx.n(80, 800)):
        builtin_poison_case(ctx, rng, idx)
    for _ in range(ctx.n(5, 40)):
        parallelize_case(ctx, rng)
    if ctx.model.available():
        outs = ctx.model.run([op for _, op, _ in pending])
        for (case, _op, real), mo in zip(pending, outs):
            rep.corr('fault', case, real, {'outcome': mo['outcome'], 'cause_is_original': mo.get('cause_is_original', False)})
    else:
        rep.disagreements.append({'op': 'fault', 'case': 'driver unavailable', 'real': None, 'model': None})

    def search(disagreements):
        rng2 = ctx.rng('search')
        before = len(rep.oracle_failures)
        for idx in range(ctx.n(2500, 15000)):
            one_case(ctx, rng2, 10 ** 6 + idx, [])
            if len(rep.oracle_failures) > before:
                o = rep.oracle_failures[before]
                return {'signature': o['signature'], 'case': o['case'], 'detail': o['detail']}
        return None
    from .. import pycorr
    pycorr.run(ctx)
    return ctx.finish(search=search)


def replay(payload):
    print(json.dumps(payload.get('input'), indent=1)[:3000])
    return 0
