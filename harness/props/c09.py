"""C09 — dump statistics describe the bytes on disk."""
import copy
import csv
import hashlib
import io
import json
import os
import zipfile

import dataflows as DF
from dataflows import Flow
from dataflows.processors.dumpers.dumper_base import DumperBase

from .. import canon, fast  # noqa: F401
from ..common import quiet


def get_dotted(obj, name):
    if name is None:
        return None
    for p in name.split('.'):
        if not isinstance(obj, dict) or p not in obj:
            return None
        obj = obj[p]
    return obj


def gen_tables(rng):
    n = rng.randint(1, 3)
    out = []
    for i in range(n):
        rows = [{'id': j, 'txt': rng.choice(['x', 'ünïcödé', '😀😀', 'a,b', 'q"q', 'line\nbreak', '']), 'n': rng.choice([1.5, 2, None])}
                for j in range(rng.choice([0, 1, 3, 25]))]
        out.append(rows)
    return out


def count_rows(fmt, data):
    if fmt == 'csv':
        return max(0, len(list(csv.reader(io.StringIO(data.decode('utf-8'), newline='')))) - 1)
    return len(json.loads(data.decode('utf-8')))


def one_dump(ctx, rng, idx, pending):
    rep = ctx.report
    tables = gen_tables(rng)
    fmt = rng.choice(['csv', 'json'])
    target = rng.choice(['path', 'zip'])
    filehash = rng.random() < 0.3
    pretty = rng.random() < 0.5
    counters = {}
    style = rng.choice(['default', 'renamed', 'dotted', 'disabled-some', 'disabled-subset'])
    if style == 'renamed':
        counters = {'datapackage-rowcount': 'rows', 'datapackage-bytes': 'size', 'datapackage-hash': 'md5',
                    'resource-rowcount': 'rows', 'resource-bytes': 'size', 'resource-hash': 'md5'}
    elif style == 'dotted':
        counters = {'datapackage-rowcount': 'stats.rows', 'datapackage-bytes': 'stats.bytes', 'datapackage-hash': 'stats.hash',
                    'resource-rowcount': 'stats.rows', 'resource-bytes': 'stats.deep.bytes', 'resource-hash': 'sum.md5'}
    elif style == 'disabled-some':
        counters = {'datapackage-rowcount': None, 'resource-bytes': None}
        if not filehash:
            counters['resource-hash'] = rng.choice([None, 'hash'])
    elif style == 'disabled-subset':
        # every subset of the six counters in turn (a counter that is switched off must not change what the others record:
        # e.g. the hash is taken of the whole file whether or not its size is asked for)
        keys = ['datapackage-rowcount', 'datapackage-bytes', 'datapackage-hash', 'resource-rowcount', 'resource-bytes', 'resource-hash']
        mask = [0b010010, 0b010011, 0b110010, 0b011011, 0b000010, 0b010000, 0b111111][idx % 7] if rng.random() < 0.6 else rng.randrange(64)
        counters = {k: None for i, k in enumerate(keys) if mask >> i & 1}
        if filehash:
            counters.pop('resource-hash', None)
    names = {
        'pkg_rows': counters.get('datapackage-rowcount', 'count_of_rows'), 'pkg_bytes': counters.get('datapackage-bytes', 'bytes'),
        'pkg_hash': counters.get('datapackage-hash', 'hash'), 'res_rows': counters.get('resource-rowcount', 'count_of_rows'),
        'res_bytes': counters.get('resource-bytes', 'bytes'), 'res_hash': counters.get('resource-hash', 'hash')}
    # where the process stands while dumping: anywhere (absolute target), or in a directory that already holds a dump
    # of the same data to '.', the target being a relative sub-directory
    cwd_mode = target == 'path' and rng.random() < 0.35
    # how the dumping flow object is used: once; again after a run that failed part-way (the dumper object is the same);
    # a second time after a complete run.  The statistics describe the dump that was written last.  (A dump_to_zip object
    # opens its archive when it is constructed and is good for one run only: path dumps only.)
    history = 'once' if (cwd_mode or target == 'zip') else rng.choice(['once', 'once', 'retry-after-failure', 'run-twice'])
    total_rows = sum(len(t) or 1 for t in tables)
    fail_at = rng.choice([total_rows, max(1, total_rows - 1), rng.randint(1, total_rows)])
    # the descriptors that reach the dumper may already carry counters (a package loaded from an earlier dump does)
    carried = rng.random() < 0.3
    # the target directory may hold an earlier dump of *other* data (same resource names): what is recorded describes the new dump
    earlier_other = target == 'path' and not cwd_mode and rng.random() < 0.3
    case = {'target_directory_holds_an_earlier_dump_of_other_data': earlier_other, 'tables': [len(t) for t in tables], 'format': fmt, 'history': history, 'incoming_descriptors_carry_counters': carried, 'first_attempt_fails_at_row': fail_at if history == 'retry-after-failure' else None, 'target': target, 'add_filehash_to_path': filehash,
            'pretty_descriptor': pretty, 'counters': style, 'cwd_holds_an_earlier_dump': cwd_mode}

    def run(tag):
        base = os.path.join(ctx.scratch, 'd%d%s' % (idx, tag))
        srcs = [copy.deepcopy(t) or [{'id': 0, 'txt': 'x', 'n': 1}] for t in tables]
        steps = list(srcs)
        for i, t in enumerate(tables):
            if not t:
                steps.append(DF.filter_rows(equals=[{'id': -1}], resources='res_%d' % (i + 1)))
        kw = dict(format=fmt, counters=copy.deepcopy(counters), add_filehash_to_path=filehash, pretty_descriptor=pretty)
        if carried:
            def nested(name, value):
                parts = name.split('.')
                out = value
                for part in reversed(parts[1:]):
                    out = {part: out}
                return parts[0], out

            def stamp(package):
                for obj, props in [(package.pkg.descriptor, [(names['pkg_rows'], 1000), (names['pkg_bytes'], 5000)])] + \
                        [(r, [(names['res_rows'], 77), (names['res_bytes'], 12345), (names['res_hash'], 'stale')])
                         for r in package.pkg.descriptor['resources']]:
                    for name, value in props:
                        if name:
                            k, v = nested(name, value)
                            if isinstance(v, dict) and isinstance(obj.get(k), dict):
                                def merge(a, b):
                                    for kk, vv in b.items():
                                        if isinstance(vv, dict) and isinstance(a.get(kk), dict):
                                            merge(a[kk], vv)
                                        else:
                                            a[kk] = vv
                                merge(obj[k], v)
                            else:
                                obj[k] = v
                yield package.pkg
                yield from package
            steps.append(stamp)
        if target == 'path' and cwd_mode:
            work = base
            base = os.path.join(work, 'mirror')
            os.makedirs(work, exist_ok=True)
            old = os.getcwd()
            os.chdir(work)
            try:
                with quiet():
                    Flow(*[copy.deepcopy(x) for x in steps], DF.dump_to_path('.', **copy.deepcopy(kw))).process()
                    dp, stats = Flow(*steps, DF.dump_to_path('mirror', **kw)).process()
            finally:
                os.chdir(old)
        else:
            if target == 'path':
                if earlier_other:
                    with quiet():
                        Flow([{'id': 999, 'txt': 'earlier', 'n': 1}], DF.dump_to_path(base, **copy.deepcopy(kw))).process()
                steps.append(DF.dump_to_path(base, **kw))
            else:
                os.makedirs(base, exist_ok=True)
                steps.append(DF.dump_to_zip(os.path.join(base, 'o.zip'), **kw))
            fault = {'armed': history == 'retry-after-failure', 'n': 0}

            def faulty(rows):
                for r in rows:
                    fault['n'] += 1
                    if fault['armed'] and fault['n'] == fail_at:
                        fault['armed'] = False
                        raise RuntimeError('fault in the first attempt')
                    yield r
            steps.insert(len(steps) - 1, faulty)
            flow = Flow(*steps)
            with quiet():
                if history == 'retry-after-failure':
                    try:
                        flow.process()
                    except Exception:  # noqa
                        pass
                    fault['armed'] = False
                elif history == 'run-twice':
                    flow.process()
                dp, stats = flow.process()
        if target == 'path':
            def read(p):
                with open(os.path.join(base, p), 'rb') as f:
                    return f.read()

            def exists(p):
                return os.path.exists(os.path.join(base, p))
        else:
            z = zipfile.ZipFile(os.path.join(base, 'o.zip'))

            def read(p):
                return z.read(p)

            def exists(p):
                return p in z.namelist()
        desc = json.loads(read('datapackage.json').decode('utf-8'))
        return desc, stats, read, exists
    try:
        desc, stats, read, exists = run('a')
    except Exception as e:  # noqa
        rep.case('dump', case, nontrivial=False)
        rep.fail('dump-raises', case, repr(e)[:300])
        return
    rep.case('dump:%s:%s' % (target, fmt), case, nontrivial=sum(len(t) for t in tables) > 0)
    rep.hist('counters', style)
    files = []
    tot_bytes = tot_rows = 0
    for r in desc['resources']:
        if not exists(r['path']):
            rep.fail('recorded-path-has-no-file', case, {'resource': r['name'], 'path': r['path']})
            return
        data = read(r['path'])
        try:
            nrows = count_rows(fmt, data)
        except Exception as e:  # noqa
            rep.fail('data-file-not-readable', case, {'resource': r['name'], 'path': r['path'], 'error': repr(e)[:200],
                                                      'head': data[:80].decode('utf-8', 'replace')})
            return
        digest = hashlib.md5(data).hexdigest()
        files.append({'size': len(data), 'digest': digest, 'rows': nrows})
        tot_bytes += len(data)
        tot_rows += nrows
        for what, name, actual in (('bytes', names['res_bytes'], len(data)), ('hash', names['res_hash'], digest),
                                   ('rows', names['res_rows'], nrows)):
            rec = get_dotted(r, name)
            if name is None:
                continue
            if rec != actual:
                rep.fail('resource-%s-wrong' % what, case, {'resource': r['name'], 'recorded': rec, 'actual': actual})
        if filehash and names['res_hash'] and digest not in r['path']:
            rep.fail('filehash-not-in-path', case, {'path': r['path']})
    if names['pkg_bytes'] and get_dotted(desc, names['pkg_bytes']) != tot_bytes:
        rep.fail('package-bytes-not-the-sum', case, {'recorded': get_dotted(desc, names['pkg_bytes']), 'sum': tot_bytes})
    if names['pkg_rows'] and get_dotted(desc, names['pkg_rows']) != tot_rows:
        rep.fail('package-rows-not-the-sum', case, {'recorded': get_dotted(desc, names['pkg_rows']), 'sum': tot_rows})
    # returned stats vs written descriptor
    if names['pkg_rows'] and stats.get('count_of_rows') != get_dotted(desc, names['pkg_rows']):
        rep.fail('stats-rows-differ-from-descriptor', case, {'stats': stats.get('count_of_rows')})
    if names['pkg_hash'] and stats.get('hash') != get_dotted(desc, names['pkg_hash']):
        rep.fail('stats-hash-differ-from-descriptor', case, {'stats': stats.get('hash')})
    if names['pkg_bytes'] and stats.get('bytes') != get_dotted(desc, names['pkg_bytes']):
        rep.fail('stats-bytes-includes-descriptor-size', case, {'stats': stats.get('bytes'),
                                                               'descriptor': get_dotted(desc, names['pkg_bytes'])})
    # determinism: the same data dumped again gives the same hashes
    desc2, stats2, _, _ = run('b')
    h1 = [get_dotted(r, names['res_hash']) for r in desc['resources']] + [get_dotted(desc, names['pkg_hash'])]
    h2 = [get_dotted(r, names['res_hash']) for r in desc2['resources']] + [get_dotted(desc2, names['pkg_hash'])]
    if h1 != h2:
        rep.fail('hashes-not-deterministic', case, {'first': h1, 'second': h2})
    pending.append((case, dict({'op': 'dumpstats', 'files': files}, **{k: v for k, v in names.items() if k != 'pkg_hash'}),
                    {'pkg_bytes': get_dotted(desc, names['pkg_bytes']), 'pkg_rows': get_dotted(desc, names['pkg_rows']),
                     'resources': [{'bytes': get_dotted(r, names['res_bytes']), 'rows': get_dotted(r, names['res_rows']),
                                    'hash': get_dotted(r, names['res_hash'])} for r in desc['resources']]}))


def probe(finding):
    if finding['signature'] == 'stats-bytes-includes-descriptor-size':
        base = os.path.join(os.path.dirname(os.path.dirname(os.path.dirname(os.path.abspath(__file__)))), 'scratch', 'probe-c09')
        try:
            with quiet():
                dp, stats = Flow([{'a': 1}], DF.dump_to_path(base)).process()
            with open(os.path.join(base, 'datapackage.json')) as f:
                d = json.load(f)
            return stats['bytes'] != d['bytes']
        finally:
            import shutil
            shutil.rmtree(base, ignore_errors=True)
    raise ValueError(finding['signature'])


def run(ctx):
    rep = ctx.report
    rep.rule = ('1-3 resources of 0-25 rows with multi-byte text x csv/json x path/zip x counters default / renamed / nested '
                'with dots / partly disabled x add_filehash_to_path x pretty_descriptor; sizes, md5 and row counts are read '
                'off the written files; every dump is done twice; non-trivial = at least one row')
    rep.assumptions = ['md5 and text-mode tell() are CPython', 'the data files are decoded with csv / json to count rows']
    rng = ctx.rng('main')
    pending = []
    for idx in range(ctx.n(120, 1500)):
        one_dump(ctx, rng, idx, pending)
    if ctx.model.available():
        outs = ctx.model.run([op for _, op, _ in pending])
        for (case, op, real), mo in zip(pending, outs):
            rep.corr('dumpstats', case, real, mo)
    else:
        rep.disagreements.append({'op': 'dumpstats', 'case': 'driver unavailable', 'real': None, 'model': None})

    def search(disagreements):
        rng2 = ctx.rng('search')
        before = len(rep.oracle_failures)
        known = {'stats-bytes-includes-descriptor-size'}
        for idx in range(ctx.n(600, 4000)):
            one_dump(ctx, rng2, 10 ** 6 + idx, [])
            new = [o for o in rep.oracle_failures[before:] if o['signature'] not in known]
            if new:
                o = new[0]
                return {'signature': o['signature'], 'case': o['case'], 'detail': o['detail']}
        return None
    return ctx.finish(probe=probe, search=search)


def replay(payload):
    print(json.dumps(payload.get('input'), indent=1)[:3000])
    return 0
