"""C08 — an interrupted checkpoint is never used."""
import concurrent.futures
import json
import os
import shutil

from .. import canon, fsfault
from ..common import quiet


# ------------------------------------------------------------------ scenario (runs in the child)

def build(params):
    import dataflows as DF
    from dataflows import Flow
    counter = params['counter']

    def marker(package):
        with open(counter, 'a') as f:     # outside the watched directory: not traced
            f.write('x\n')
        yield package.pkg
        yield from package
    sources = []
    for i, n in enumerate(params['rows']):
        sources.append([{'id': j, 'name': 'r%d-%d' % (i, j), 'amount': (j * 3) % 7} for j in range(n)] or
                       [{'id': 0, 'name': 'only', 'amount': 1}])

    sfail = params.get('source_fail_at')
    if sfail is not None:
        # the source itself (a generator) fails at a given item - inside or beyond the inference sample
        full = sources[sfail[0]]

        def failing(full=full, at=sfail[1]):
            for j, r in enumerate(full):
                if j == at:
                    raise ValueError('source broke')
                yield r
        sources[sfail[0]] = failing()

    def trim(rows):
        # resources declared empty are emptied after inference (an iterable needs one row to be inferred)
        idx = int(rows.res.name.split('_')[1]) - 1
        for r in rows:
            if params['rows'][idx] > 0:
                yield r
    fail_at = params.get('fail_at')

    def maybe_fail(rows):
        for i, r in enumerate(rows):
            if fail_at is not None and rows.res.name == 'res_%d' % (fail_at[0] + 1) and i == fail_at[1]:
                raise ValueError('injected')
            yield r
    rfail = params.get('row_fail')

    def row_step(row):
        # a plain row function: what it raises is not shielded by a generator frame of its own
        if rfail is not None and row['name'] == rfail['name']:
            raise {'StopIteration': StopIteration, 'ValueError': ValueError}[rfail['kind']]('row function failed')
    dfail = params.get('down_fail_at')

    def downstream(rows):
        # a step *behind* the checkpoint that fails while rows still stream through the checkpoint
        for i, r in enumerate(rows):
            if dfail is not None and rows.res.name == 'res_%d' % (dfail[0] + 1) and i == dfail[1]:
                raise {'ValueError': ValueError, 'KeyboardInterrupt': KeyboardInterrupt, 'SystemExit': SystemExit}[dfail[2]]('downstream')
            yield r
    import contextlib
    import io
    with contextlib.redirect_stdout(io.StringIO()):
        before = [row_step] if (rfail or {}).get('where') == 'before' else []
        after = [row_step] if (rfail or {}).get('where') == 'after' else []
        res, dp, _ = Flow(*sources, trim, marker, maybe_fail, *before,
                          DF.checkpoint('cp', checkpoint_path=params['ckdir']), *after, downstream).results()
    return {'rows': [[canon.norm_row(canon.enc_row(r)) for r in rs] for rs in res],
            'fields': [[f['name'], f['type']] for r in dp.descriptor['resources'] for f in r['schema']['fields']]}


# ------------------------------------------------------------------ parent

def count_lines(path):
    if not os.path.exists(path):
        return 0
    with open(path) as f:
        return sum(1 for _ in f)


def project(trace):
    """ops → effect alphabet of the model (flush is part of the preceding write)"""
    out = []
    for op in trace:
        kind = op[1]
        if kind == 'open':
            out.append(['open', op[2]])
        elif kind == 'write':
            out.append(['write', op[2], op[3][:-1] if op[3].endswith('\n') else op[3] + '<no-newline>'])
        elif kind == 'close':
            out.append(['close', op[2]])
        elif kind == 'rename':
            out.append(['rename', op[2], op[3]])
        elif kind == 'unlink':
            out.append(['unlink', op[2]])
    return out


def shape_run(ctx, shape, idx):
    rep = ctx.report
    base = os.path.join(ctx.scratch, 'shape%d' % idx)
    final_rel = os.path.join('cp', 'stream.ndjson')

    def fresh(tag):
        d = os.path.join(base, tag)
        os.makedirs(os.path.join(d, 'ck'), exist_ok=True)
        return d, {'rows': shape, 'ckdir': os.path.join(d, 'ck'), 'counter': os.path.join(d, 'counter')}
    d0, p0 = fresh('baseline')
    b = fsfault.run_child('harness.props.c08:build', p0, p0['ckdir'], d0, 'base')
    case0 = {'rows_per_resource': shape}
    if b['returncode'] != 0 or b['result'] is None:
        raise RuntimeError('baseline child failed: %r %s' % (b['returncode'], b['stderr']))
    N = len(b['trace'])
    final0 = os.path.join(p0['ckdir'], final_rel)
    with open(final0, 'rb') as f:
        content0 = f.read()
    rep.case('baseline', case0, key=['baseline', shape])
    rep.hist('ops_per_checkpoint', N)
    # ---- fs-trace correspondence
    lines = content0.decode('utf-8').split('\n')
    desc_line, rest = lines[0], lines[1:]
    resources, cur = [], []
    for ln in rest[:-1] if rest and rest[-1] == '' else rest:
        if ln == '':
            resources.append(cur)
            cur = []
        else:
            cur.append(ln)
    from dataflows.processors.stream import ACTIVE_SUFFIX
    if ctx.model.available():
        mo = ctx.model.run([{'op': 'streamfx', 'final': final_rel, 'suffix': ACTIVE_SUFFIX, 'desc': desc_line,
                             'resources': resources}])[0]
        rep.corr('fs-trace', case0, project(b['trace']), mo['effects'])
        if any(mo['usable_after_prefix']):
            rep.disagreements.append({'op': 'model-prefix-usable', 'case': case0, 'real': None, 'model': mo['usable_after_prefix']})
        if not mo['unstream_ok']:
            rep.disagreements.append({'op': 'model-unstream', 'case': case0, 'real': None, 'model': False})
    else:
        rep.disagreements.append({'op': 'fs-trace', 'case': 'driver unavailable', 'real': None, 'model': None})
    # second run on the baseline directory: picks the checkpoint up, upstream not executed
    b2 = fsfault.run_child('harness.props.c08:build', p0, p0['ckdir'], d0, 'again')
    if b2['result'] != b['result']:
        rep.fail('second-run-differs', case0, {'first': b['result'], 'second': b2['result']})
    if count_lines(p0['counter']) != 1:
        rep.fail('second-run-executed-upstream', case0, {'counter': count_lines(p0['counter'])})

    # ---- kill at every operation
    def kill_point(k):
        d, p = fresh('kill%d' % k)
        r = fsfault.run_child('harness.props.c08:build', p, p['ckdir'], d, 'kill', kill_at=k)
        final = os.path.join(p['ckdir'], final_rel)
        exists = os.path.exists(final)
        content = None
        if exists:
            with open(final, 'rb') as f:
                content = f.read()
        listing = sorted(os.listdir(os.path.join(p['ckdir'], 'cp'))) if os.path.isdir(os.path.join(p['ckdir'], 'cp')) else []
        before = count_lines(p['counter'])
        r2 = fsfault.run_child('harness.props.c08:build', p, p['ckdir'], d, 'rerun')
        after = count_lines(p['counter'])
        shutil.rmtree(d, ignore_errors=True)
        return k, r, exists, content, listing, r2, before, after
    with concurrent.futures.ThreadPoolExecutor(max_workers=12) as ex:
        results = list(ex.map(kill_point, range(N + 1)))
    for k, r, exists, content, listing, r2, before, after in results:
        op = b['trace'][k][1:3] if k < N else ['<after-last>']
        case = {'rows_per_resource': shape, 'kill_before_op': k, 'op': op}
        rep.case('kill', case, key=['kill', shape, k])
        if k < N and r['returncode'] != -9:
            rep.notes.append('kill point %d of %s: child ended with %r instead of SIGKILL' % (k, shape, r['returncode']))
            continue
        if k < N and exists and content != content0:
            rep.fail('partial-checkpoint-usable', case, {'listing': listing, 'size': len(content), 'complete_size': len(content0)})
        elif k < N and exists:
            # complete file present although the writer was killed before it finished: only legal for the kill
            # right after the rename, which is not a point before any operation of the writer
            rep.fail('checkpoint-present-before-writer-finished', case, {'listing': listing})
        if r2['returncode'] != 0 or r2['result'] != b['result']:
            rep.fail('next-run-differs-after-interruption', case, {'returncode': r2['returncode'],
                                                                    'expected': b['result'], 'got': r2['result'],
                                                                    'stderr': r2['stderr'][-300:]})
        if not exists and after != before + 1:
            rep.fail('next-run-did-not-recompute', case, {'counter_before': before, 'counter_after': after})
    # ---- a step failing at every row: no rename in the log
    for ri, n in enumerate(shape):
        for row in range(max(n, 1)):
            d, p = fresh('fail%d_%d' % (ri, row))
            p['fail_at'] = [ri, row]
            r = fsfault.run_child('harness.props.c08:build', p, p['ckdir'], d, 'fail')
            final = os.path.join(p['ckdir'], final_rel)
            case = {'rows_per_resource': shape, 'exception_at': [ri, row]}
            failed = r['returncode'] != 0
            rep.case('exception', case, key=['exc', shape, ri, row])
            if n == 0:
                continue
            if not failed:
                rep.fail('injected-exception-did-not-fail-the-run', case, {})
            if os.path.exists(final):
                rep.fail('checkpoint-committed-after-failure', case, {'ops': [o[1] for o in r['trace']][-4:]})
            del p['fail_at']
            r2 = fsfault.run_child('harness.props.c08:build', p, p['ckdir'], d, 'rerun')
            if r2['result'] != b['result']:
                rep.fail('next-run-differs-after-failure', case, {'got': r2['result']})
            shutil.rmtree(d, ignore_errors=True)
    shutil.rmtree(base, ignore_errors=True)


def source_fail_run(ctx):
    """a generator source that breaks at item k (inside and beyond the 100-item inference sample) while the checkpoint
    is being written: the run fails, no checkpoint is left, the next run recomputes the uninterrupted result"""
    rep = ctx.report
    shape = [130, 2]
    base = os.path.join(ctx.scratch, 'srcfail')
    final_rel = os.path.join('cp', 'stream.ndjson')

    def fresh(tag):
        d = os.path.join(base, tag)
        os.makedirs(os.path.join(d, 'ck'), exist_ok=True)
        return d, {'rows': shape, 'ckdir': os.path.join(d, 'ck'), 'counter': os.path.join(d, 'counter')}
    d0, p0 = fresh('baseline')
    b = fsfault.run_child('harness.props.c08:build', p0, p0['ckdir'], d0, 'base')
    if b['returncode'] != 0 or b['result'] is None:
        raise RuntimeError('baseline child failed: %r %s' % (b['returncode'], b['stderr']))
    for ri, at in ([0, 5], [0, 100], [0, 115], [0, 129], [1, 1]):
        d, p = fresh('s%d_%d' % (ri, at))
        p['source_fail_at'] = [ri, at]
        r = fsfault.run_child('harness.props.c08:build', p, p['ckdir'], d, 'fail')
        case = {'rows_per_resource': shape, 'source_breaks_at': [ri, at]}
        rep.case('source-failure', case, key=['srcfail', ri, at])
        if r['returncode'] == 0:
            rep.fail('source-failure-did-not-fail-the-run', case, {})
        if os.path.exists(os.path.join(p['ckdir'], final_rel)):
            rep.fail('checkpoint-committed-after-failure', case, {'ops': [o[1] for o in r['trace']][-4:]})
        del p['source_fail_at']
        r2 = fsfault.run_child('harness.props.c08:build', p, p['ckdir'], d, 'rerun')
        if r2['result'] != b['result']:
            rep.fail('next-run-differs-after-failure', case, {'rows': [len(x) for x in (r2['result'] or {}).get('rows', [])]})
        shutil.rmtree(d, ignore_errors=True)
    shutil.rmtree(base, ignore_errors=True)


def downstream_fail_run(ctx):
    """a step behind the checkpoint fails (an exception, Ctrl-C, sys.exit) while rows still stream through the checkpoint:
    the writer is abandoned half-way — whatever finalises it must not publish the file; the next run returns the
    uninterrupted result, and a checkpoint that is there is complete"""
    rep = ctx.report
    shape = [5, 3]
    base = os.path.join(ctx.scratch, 'downfail')
    final_rel = os.path.join('cp', 'stream.ndjson')

    def fresh(tag):
        d = os.path.join(base, tag)
        os.makedirs(os.path.join(d, 'ck'), exist_ok=True)
        return d, {'rows': shape, 'ckdir': os.path.join(d, 'ck'), 'counter': os.path.join(d, 'counter')}
    d0, p0 = fresh('baseline')
    b = fsfault.run_child('harness.props.c08:build', p0, p0['ckdir'], d0, 'base')
    if b['returncode'] != 0 or b['result'] is None:
        raise RuntimeError('baseline child failed: %r %s' % (b['returncode'], b['stderr']))
    complete = count_lines(os.path.join(p0['ckdir'], final_rel))
    points = [(0, 0), (0, 2), (0, 4), (1, 0), (1, 2)]
    kinds = ['ValueError', 'KeyboardInterrupt', 'SystemExit']
    tasks = [(ri, at, kind) for n, (ri, at) in enumerate(points) for kind in (kinds if ctx.quick is False or n % 2 == 0 else kinds[:1])]

    def one(task):
        ri, at, kind = task
        d, p = fresh('d%d_%d_%s' % (ri, at, kind))
        p['down_fail_at'] = [ri, at, kind]
        r = fsfault.run_child('harness.props.c08:build', p, p['ckdir'], d, 'fail')
        final = os.path.join(p['ckdir'], final_rel)
        lines = count_lines(final) if os.path.exists(final) else None
        del p['down_fail_at']
        r2 = fsfault.run_child('harness.props.c08:build', p, p['ckdir'], d, 'rerun')
        shutil.rmtree(d, ignore_errors=True)
        return task, r, lines, r2
    with concurrent.futures.ThreadPoolExecutor(max_workers=8) as ex:
        results = list(ex.map(one, tasks))
    for (ri, at, kind), r, lines, r2 in results:
        case = {'rows_per_resource': shape, 'step_behind_the_checkpoint_fails_at': [ri, at], 'with': kind}
        rep.case('downstream-failure', case, key=['downfail', ri, at, kind])
        if r['returncode'] == 0 and r['result'] is not None:
            rep.fail('downstream-failure-did-not-fail-the-run', case, {})
        if lines is not None and lines != complete:
            rep.fail('incomplete-checkpoint-published', case, {'lines': lines, 'complete': complete,
                                                               'ops': [o[1] for o in r['trace']][-4:]})
        if r2['result'] != b['result']:
            rep.fail('next-run-differs-after-failure', case, {'rows': [len(x) for x in (r2['result'] or {}).get('rows', [])]})
    shutil.rmtree(base, ignore_errors=True)


def row_function_fail_run(ctx):
    """a plain row function in front of / behind the checkpoint fails at some row - also with StopIteration, which only a
    generator frame turns into an error: the run fails, no incomplete checkpoint is left, the next run recomputes"""
    rep = ctx.report
    shape = [3, 2]
    base = os.path.join(ctx.scratch, 'rowfail')
    final_rel = os.path.join('cp', 'stream.ndjson')

    def fresh(tag):
        d = os.path.join(base, tag)
        os.makedirs(os.path.join(d, 'ck'), exist_ok=True)
        return d, {'rows': shape, 'ckdir': os.path.join(d, 'ck'), 'counter': os.path.join(d, 'counter')}
    d0, p0 = fresh('baseline')
    b = fsfault.run_child('harness.props.c08:build', p0, p0['ckdir'], d0, 'base')
    if b['returncode'] != 0 or b['result'] is None:
        raise RuntimeError('baseline child failed: %r %s' % (b['returncode'], b['stderr']))
    complete = count_lines(os.path.join(p0['ckdir'], final_rel))
    tasks = [(name, where, kind) for name in ('r0-0', 'r0-2', 'r1-1') for where in ('before', 'after') for kind in ('StopIteration', 'ValueError')]

    def one(task):
        name, where, kind = task
        d, p = fresh('%s_%s_%s' % (name, where, kind))
        p['row_fail'] = {'name': name, 'where': where, 'kind': kind}
        r = fsfault.run_child('harness.props.c08:build', p, p['ckdir'], d, 'fail')
        final = os.path.join(p['ckdir'], final_rel)
        lines = count_lines(final) if os.path.exists(final) else None
        del p['row_fail']
        r2 = fsfault.run_child('harness.props.c08:build', p, p['ckdir'], d, 'rerun')
        shutil.rmtree(d, ignore_errors=True)
        return task, r, lines, r2
    with concurrent.futures.ThreadPoolExecutor(max_workers=8) as ex:
        results = list(ex.map(one, tasks))
    for (name, where, kind), r, lines, r2 in results:
        case = {'rows_per_resource': shape, 'row_function': where + ' the checkpoint', 'raises': kind, 'at_row': name}
        rep.case('row-function-failure', case, key=['rowfail', name, where, kind])
        if r['returncode'] == 0 and r['result'] is not None:
            rep.fail('failing-row-function-did-not-fail-the-run', case, {'rows': [len(x) for x in r['result'].get('rows', [])]})
        if lines is not None and lines != complete:
            rep.fail('incomplete-checkpoint-published', case, {'lines': lines, 'complete': complete})
        if r2['result'] != b['result']:
            rep.fail('next-run-differs-after-failure', case, {'rows': [len(x) for x in (r2['result'] or {}).get('rows', [])]})
    shutil.rmtree(base, ignore_errors=True)


def same_object_retry(ctx):
    """a retry loop around one Flow object: the first attempt fails while the checkpoint is being written, the same
    object is run again; what is then on disk is the checkpoint of an uninterrupted run, and the next run returns it"""
    import dataflows as DF
    from dataflows import Flow
    import contextlib
    import io
    rep = ctx.report
    for shape, fail_at in (([6], (0, 3)), ([3, 4], (1, 1)), ([2, 0, 5], (2, 4))):
        base = os.path.join(ctx.scratch, 'retry%d' % len(shape))
        shutil.rmtree(base, ignore_errors=True)
        flag = {'fail': True}

        def sources():
            return [[{'id': j, 'name': 'r%d-%d' % (i, j)} for j in range(n)] or [{'id': 0, 'name': 'only'}] for i, n in enumerate(shape)]

        def trim(rows):
            idx = int(rows.res.name.split('_')[1]) - 1
            for r in rows:
                if shape[idx] > 0:
                    yield r

        def maybe_fail(rows):
            for i, r in enumerate(rows):
                if flag['fail'] and rows.res.name == 'res_%d' % (fail_at[0] + 1) and i == fail_at[1]:
                    raise ValueError('injected')
                yield r
        case = {'rows_per_resource': shape, 'first_attempt_fails_at': list(fail_at), 'retry': 'same Flow object'}
        rep.case('same-object-retry', case, key=['retry', shape])
        final = os.path.join(base, 'cp', 'stream.ndjson')
        with contextlib.redirect_stdout(io.StringIO()):
            ref_dir = os.path.join(base, 'ref')
            want = Flow(*sources(), trim, DF.checkpoint('cp', checkpoint_path=ref_dir)).results()[0]
            with open(os.path.join(ref_dir, 'cp', 'stream.ndjson'), 'rb') as f:
                want_bytes = f.read()
            flow = Flow(*sources(), trim, maybe_fail, DF.checkpoint('cp', checkpoint_path=base))
            failed = False
            try:
                flow.results()
            except Exception:  # noqa
                failed = True
            if not failed:
                rep.fail('retry:first-attempt-did-not-fail', case, {})
                continue
            if os.path.exists(final):
                rep.fail('checkpoint-committed-after-failure', case, {})
            flag['fail'] = False
            try:
                got2 = flow.results()[0]
                got3 = Flow(*sources(), trim, DF.checkpoint('cp', checkpoint_path=base)).results()[0]
            except Exception as e:  # noqa
                rep.fail('retry:second-attempt-raises', case, repr(e)[:300])
                continue
        if got2 != want:
            rep.fail('retry:second-attempt-differs', case, {'rows': [len(x) for x in got2]})
        with open(final, 'rb') as f:
            have_bytes = f.read()
        if have_bytes != want_bytes:
            rep.fail('retry:checkpoint-file-differs-from-an-uninterrupted-run', case,
                     {'size': len(have_bytes), 'expected_size': len(want_bytes)})
        if got3 != want:
            rep.fail('next-run-differs-after-failure', case, {'rows': [len(x) for x in got3]})
        shutil.rmtree(base, ignore_errors=True)


def run(ctx):
    rep = ctx.report
    rep.rule = ('checkpointing pipelines of 1-3 resources x 0-N rows; a real SIGKILL before every file operation of the '
                'writer (open, each write, each flush, close, rename) and after the last; an exception injected at every '
                'row; after each: is a checkpoint usable, is it complete, does the next run recompute and return the '
                'uninterrupted result; every case is non-trivial; distinct by (shape, point)')
    rep.assumptions = ['rename(2) is atomic; a killed process performs no further effects',
                       'power-loss durability (no fsync) is outside the property (process death)']
    shapes = [[2, 0], [3], [1, 1, 2]] if ctx.quick else [[0], [1], [2, 0], [0, 3], [1, 1, 2], [12], [5, 0, 7], [50]]
    for idx, shape in enumerate(shapes):
        shape_run(ctx, shape, idx)
    source_fail_run(ctx)
    downstream_fail_run(ctx)
    row_function_fail_run(ctx)
    same_object_retry(ctx)

    def search(disagreements):
        before = len(rep.oracle_failures)
        for idx, shape in enumerate([[4, 1], [0, 0, 2]]):
            shape_run(ctx, shape, 100 + idx)
            if len(rep.oracle_failures) > before:
                o = rep.oracle_failures[before]
                return {'signature': o['signature'], 'case': o['case'], 'detail': o['detail']}
        return None
    return ctx.finish(search=search)


def replay(payload):
    print(json.dumps(payload.get('input'), indent=1)[:3000])
    return 0
