"""C07 — resuming from a checkpoint reproduces the first run."""
import copy
import datetime
import decimal
import json
import os
import shutil
import struct

import isodate
import dataflows as DF
from dataflows import Flow
from dataflows.helpers.extended_json import ejson

from .. import canon, fast  # noqa: F401
from ..common import quiet


# ------------------------------------------------------------------ values

def gen_leaf(rng, micro=False):
    k = rng.choice(['null', 'bool', 'int', 'flt', 'str', 'dec', 'date', 'time', 'dtime', 'dtime-tz', 'dur'])
    if k == 'null':
        return None
    if k == 'bool':
        return rng.random() < 0.5
    if k == 'int':
        return rng.choice([0, 1, -1, 2 ** 53 + 1, -10 ** 20, 7])
    if k == 'flt':
        return rng.choice([0.5, -1.25, 3.141592653589793, 1e-7, 1.5e300])
    if k == 'str':
        return rng.choice(['', 'x', 'ünï', '😀', 'a"b', 'line\nbreak', 'type{date}', ' lead'])
    if k == 'dec':
        return decimal.Decimal(rng.choice(['1.50', '-0.001', '1E+3', '12345678901234567890.123456789', '0']))
    us = rng.choice([0, 0, 1, 999999]) if micro else 0
    if k == 'date':
        return datetime.date(rng.choice([1, 999, 2020, 9999]), rng.randint(1, 12), rng.randint(1, 28))
    if k == 'time':
        return datetime.time(rng.randint(0, 23), rng.randint(0, 59), rng.randint(0, 59), us)
    if k == 'dtime':
        return datetime.datetime(rng.choice([1, 999, 2020, 9999]), rng.randint(1, 12), rng.randint(1, 28), rng.randint(0, 23),
                                 rng.randint(0, 59), rng.randint(0, 59), us)
    if k == 'dtime-tz':
        off = rng.choice([0, 3600, -3600, 19800, -18000, -43200, 50400, -60, 86340, -86340])
        name = rng.choice([None, 'XYZ'])
        tz = datetime.timezone(datetime.timedelta(seconds=off)) if name is None else \
            datetime.timezone(datetime.timedelta(seconds=off), name)
        return datetime.datetime(rng.choice([999, 2020]), rng.randint(1, 12), rng.randint(1, 28), rng.randint(0, 23),
                                 rng.randint(0, 59), rng.randint(0, 59), us, tzinfo=tz)
    return datetime.timedelta(days=rng.choice([0, 1, 400]), seconds=rng.choice([0, 1, 3599]))


def gen_value(rng, depth=0, micro=False):
    r = rng.random()
    if depth >= 3 or r < 0.6:
        return gen_leaf(rng, micro)
    if r < 0.75:
        return [gen_value(rng, depth + 1, micro) for _ in range(rng.randint(0, 3))]
    if r < 0.9:
        return {rng.choice(['a', 'b', 'k y', 'ü', 'type']): gen_value(rng, depth + 1, micro) for _ in range(rng.randint(0, 3))}
    return set(x for x in (gen_leaf(rng, micro) for _ in range(rng.randint(0, 3)))
               if not isinstance(x, (list, dict, set)))


def to_v(v):
    """Python value → model V"""
    if v is None:
        return {'t': 'null'}
    if isinstance(v, bool):
        return {'t': 'bool', 'v': v}
    if isinstance(v, int):
        return {'t': 'int', 'v': str(v)}
    if isinstance(v, float):
        return {'t': 'flt', 'bits': struct.unpack('>Q', struct.pack('>d', v))[0]}
    if isinstance(v, str):
        return {'t': 'str', 'v': v}
    if isinstance(v, decimal.Decimal):
        return {'t': 'dec', 'v': str(v)}
    if isinstance(v, datetime.datetime):
        d = {'t': 'dtime', 'y': v.year, 'm': v.month, 'd': v.day, 'h': v.hour, 'mi': v.minute, 's': v.second}
        if v.utcoffset() is not None:
            d['off'] = int(v.utcoffset().total_seconds())
            d['tz'] = v.tzname()
        else:
            d['off'] = None
        return d
    if isinstance(v, datetime.date):
        return {'t': 'date', 'y': v.year, 'm': v.month, 'd': v.day}
    if isinstance(v, datetime.time):
        return {'t': 'time', 'h': v.hour, 'mi': v.minute, 's': v.second}
    if isinstance(v, datetime.timedelta):
        return {'t': 'dur', 'v': isodate.duration_isoformat(v)}
    if isinstance(v, (set, frozenset)):
        return {'t': 'set', 'v': sorted((to_v(x) for x in v), key=lambda e: json.dumps(e, sort_keys=True))}
    if isinstance(v, list):
        return {'t': 'arr', 'v': [to_v(x) for x in v]}
    if isinstance(v, dict):
        return {'t': 'obj', 'v': [[k, to_v(x)] for k, x in v.items()]}
    raise ValueError(v)


def norm_v(e):
    if e['t'] == 'set':
        return {'t': 'set', 'v': sorted((norm_v(x) for x in e['v']), key=lambda x: json.dumps(x, sort_keys=True))}
    if e['t'] == 'arr':
        return {'t': 'arr', 'v': [norm_v(x) for x in e['v']]}
    if e['t'] == 'obj':
        return {'t': 'obj', 'v': sorted(([k, norm_v(x)] for k, x in e['v']), key=lambda kv: kv[0])}
    if e['t'] == 'int':
        return {'t': 'int', 'v': str(int(e['v']))}
    if e['t'] == 'dtime' and e.get('off') is not None:
        e = dict(e)
        e['off'] = int(e['off'])
    return e


def norm_tree(t):
    """plain JSON tree (from json.loads of the real text, or from the model) → comparable form"""
    if isinstance(t, bool) or t is None or isinstance(t, str):
        return t
    if isinstance(t, int):
        return {'$int': str(t)}
    if isinstance(t, float):
        if t.is_integer() and abs(t) < 1e15:
            return {'$int': str(int(t))}
        return {'$flt': str(struct.unpack('>Q', struct.pack('>d', t))[0])}
    if isinstance(t, list):
        return [norm_tree(x) for x in t]
    if isinstance(t, dict):
        if set(t) == {'$int'} or set(t) == {'$flt'}:
            return t
        if set(t) == {'type{set}'}:
            return {'type{set}': sorted((norm_tree(x) for x in t['type{set}']), key=lambda x: json.dumps(x, sort_keys=True))}
        return {k: norm_tree(v) for k, v in sorted(t.items())}
    raise ValueError(t)


def typed_equal(a, b):
    if type(a) is not type(b):
        if not (isinstance(a, (set, frozenset)) and isinstance(b, (set, frozenset))):
            return False
    if isinstance(a, list):
        return len(a) == len(b) and all(typed_equal(x, y) for x, y in zip(a, b))
    if isinstance(a, dict):
        return set(a) == set(b) and all(typed_equal(a[k], b[k]) for k in a)
    if isinstance(a, datetime.datetime):
        return a == b and a.utcoffset() == b.utcoffset() and a.replace(tzinfo=None) == b.replace(tzinfo=None)
    return a == b


def has_micro(v):
    if isinstance(v, (datetime.datetime, datetime.time)):
        return v.microsecond != 0
    if isinstance(v, (list, set, frozenset)):
        return any(has_micro(x) for x in v)
    if isinstance(v, dict):
        return any(has_micro(x) for x in v.values())
    return False


def codec_part(ctx):
    rep = ctx.report
    rng = ctx.rng('codec')
    pending = []
    for i in range(ctx.n(2000, 30000)):
        micro = i % 10 == 9      # probe stream: sub-second parts (outside the proved domain)
        v = gen_value(rng, micro=micro)
        case = {'value': canon.canon_json(v)}
        try:
            text = ejson.dumps(v, sort_keys=True, ensure_ascii=True)
            back = ejson.loads(text)
        except Exception as e:  # noqa
            rep.case('ejson', case, nontrivial=False)
            rep.fail('ejson:raises', case, repr(e)[:200])
            continue
        rep.case('ejson' if not micro else 'ejson-probe-micro', case, nontrivial=v is not None)
        if not typed_equal(v, back):
            sig = 'ejson:microseconds-dropped' if has_micro(v) else 'ejson:roundtrip'
            rep.fail(sig, case, {'text': text[:300], 'back': repr(back)[:300]})
        if not has_micro(v):
            pending.append((case, {'op': 'ejson', 'v': to_v(v)}, norm_tree(json.loads(text)), norm_v(to_v(back))))
    if ctx.model.available():
        outs = ctx.model.run([op for _, op, _, _ in pending])
        for (case, op, tree, back), mo in zip(pending, outs):
            rep.corr('ejson:tree', case, tree, norm_tree(mo['tree']))
            rep.corr('ejson:back', case, back, norm_v(mo['back']))
    else:
        rep.disagreements.append({'op': 'ejson', 'case': 'driver unavailable', 'real': None, 'model': None})


# ------------------------------------------------------------------ histories on the real code

def typed_table(rng, n):
    rows = []
    for i in range(n):
        rows.append({
            'i': i, 's': rng.choice(['x', 'ü', '', 'a b']), 'n': decimal.Decimal(rng.choice(['1.50', '-2', '0.001'])),
            'd': datetime.date(2020, 1, 1 + i % 28), 'dt': datetime.datetime(2020, 5, 17, 1, 2, 3 + i % 50),
            'l': [i, 'z', None], 'o': {'k': i, 'q': [1.5]}, 'b': i % 2 == 0, 'nul': None,
        })
    return rows


def history_part(ctx):
    rep = ctx.report
    rng = ctx.rng('history')
    pending = []
    unstream_pending = []
    for h in range(ctx.n(40, 400)):
        base = os.path.join(ctx.scratch, 'h%d' % h)
        n_cp = rng.randint(1, 3)
        n = rng.choice([0, 1, 3, 120])
        data = typed_table(rng, n) or [{'i': 0, 's': 'only', 'n': decimal.Decimal('1'), 'd': datetime.date(2020, 1, 1),
                                        'dt': datetime.datetime(2020, 1, 1), 'l': [], 'o': {}, 'b': True, 'nul': None}]
        ops = [rng.choice(['run', 'run', 'delete', 'delete-some', 'failed-run']) for _ in range(rng.randint(2, 6))]
        ops[0] = 'run'
        executed = []
        # a run of the history may fail while the rows of some resource stream through the checkpoints (the step behind the
        # last checkpoint raises): whatever it leaves behind, every later run returns what the first run returned
        fault = {'armed': False, 'res': 0, 'row': 0}

        in_place = rng.random() < 0.6
        # "running it again": either a new Flow is built for every run, or the very same Flow object is run again
        same_object = rng.random() < 0.4
        if same_object:
            in_place = False        # the sources are lists owned by the flow: a step that edits them in place would change its own input

        def tripwire(res, ri):
            for j, r in enumerate(res):
                if fault['armed'] and ri == fault['res'] and j == fault['row']:
                    raise RuntimeError('a step behind the checkpoints failed')
                yield r

        def step(k):
            def f(package):
                executed.append(k)
                yield package.pkg
                for ri, res in enumerate(package):
                    if k == n_cp:
                        res = tripwire(res, ri)
                    if in_place:
                        yield bump(res)
                    else:
                        yield (dict(r, i=r['i'] + 1) for r in res)
            return f

        def bump(res):
            for r in res:
                r['i'] += 1          # the documented idiom: edit the row in place
                r['l'].append('+')
                yield r

        # 1-3 resources; some of them empty (first, middle or last) when they reach the checkpoint
        nres = rng.choice([1, 1, 2, 3, 3])
        empties = [rng.random() < 0.4 for _ in range(nres)]
        # every fourth history, systematically: the checkpoints are written, removed, a run fails while the *last* resource
        # streams, and the flow is run again
        systematic_failure = h % 4 == 3
        if systematic_failure:
            empties = [False] * nres
            ops = ['run', 'delete', 'failed-run', 'run', 'run']

        def make_flow():
            links = [copy.deepcopy(data) for _ in range(nres)]
            for ri, emp in enumerate(empties):
                if emp:
                    links.append(DF.filter_rows(equals=[{'i': -999}], resources='res_%d' % (ri + 1)))
            links += [DF.set_type('n', type='number'), step(0)]
            for c in range(n_cp):
                links.append(DF.checkpoint('cp%d' % c, checkpoint_path=base))
                links.append(step(c + 1))
            return Flow(*links)
        first = None
        the_flow = make_flow() if same_object else None
        hist_case = {'checkpoints': n_cp, 'rows': len(data), 'ops': ops, 'in_place_steps': in_place,
                     'resources_empty': empties, 'same_flow_object_for_every_run': same_object}
        for j, op in enumerate(ops):
            if op == 'delete':
                shutil.rmtree(base, ignore_errors=True)
                continue
            if op == 'delete-some':
                victim = rng.randrange(n_cp)
                shutil.rmtree(os.path.join(base, 'cp%d' % victim), ignore_errors=True)
                continue
            if op == 'failed-run':
                live = [ri for ri, emp in enumerate(empties) if not emp]
                if not live:
                    continue
                fault.update(armed=True, res=live[-1] if systematic_failure else rng.choice([live[-1], rng.choice(live)]), row=rng.randrange(len(data)))
                try:
                    with quiet():
                        (the_flow if same_object else make_flow()).results()
                    rep.fail('history:failing-run-returned-normally', hist_case, {'fault': dict(fault)})
                except Exception:  # noqa
                    pass
                fault['armed'] = False
                import gc
                gc.collect()          # abandoned generators are finalised now, as they would be at the latest when the process ends
                continue
            present = [c for c in range(n_cp) if os.path.exists(os.path.join(base, 'cp%d' % c, 'stream.ndjson'))]
            del executed[:]
            try:
                with quiet():
                    res, dp, _ = (the_flow if same_object else make_flow()).results()
            except Exception as e:  # noqa
                rep.fail('history:run-raises', hist_case, repr(e)[:300])
                break
            cur = {'rows': [[canon.norm_row(canon.enc_row(r)) for r in rs] for rs in res],
                   'fields': [[f['name'], f['type']] for r in dp.descriptor['resources'] for f in r['schema']['fields']]}
            rep.case('history-run', {'hist': hist_case, 'run': j, 'present': present}, key=[h, j])
            if first is None:
                first = cur
            elif cur != first:
                rep.fail('history:result-differs-from-first-run', {'hist': hist_case, 'run': j, 'present': present},
                         {'first': str(first)[:600], 'now': str(cur)[:600]})
            # which steps executed: those after the last existing checkpoint
            last = max(present) if present else -1
            expect_exec = list(range(last + 1, n_cp + 1))
            if sorted(executed) != expect_exec:
                rep.fail('history:wrong-steps-executed', {'hist': hist_case, 'run': j, 'present': present},
                         {'executed': sorted(executed), 'expected': expect_exec})
            links = [['step', 0]]
            for c in range(n_cp):
                links += [['cp', c], ['step', c + 1]]
            pending.append(({'hist': hist_case, 'run': j, 'present': present},
                            {'op': 'plan', 'links': links, 'present': present}, sorted(executed)))
            # the reader against the model's reader, on the file the last checkpoint just wrote (or kept)
            last_file = os.path.join(base, 'cp%d' % (n_cp - 1), 'stream.ndjson')
            if os.path.exists(last_file):
                with open(last_file, encoding='utf-8') as f:
                    lines = f.read().split('\n')
                if lines and lines[-1] == '':
                    lines = lines[:-1]
                try:
                    with quiet():
                        back = Flow(DF.unstream(last_file)).results(on_error=None)[0]
                    real_groups = [[canon.norm_row(canon.enc_row(r)) for r in rs] for rs in back]
                except Exception as e:  # noqa
                    real_groups = {'err': type(e).__name__}
                unstream_pending.append(({'hist': hist_case, 'run': j, 'file_lines': len(lines)},
                                         {'op': 'unstream', 'lines': lines, 'nres': nres}, real_groups))
        shutil.rmtree(base, ignore_errors=True)
    if ctx.model.available():
        outs = ctx.model.run([op for _, op, _ in pending])
        for (case, op, executed), mo in zip(pending, outs):
            rep.corr('plan', case, executed, sorted(a[1] for a in mo['actions'] if a[0] == 'exec'))
        outs = ctx.model.run([op for _, op, _ in unstream_pending])
        for (case, op, real_groups), mo in zip(unstream_pending, outs):
            model_groups = [[canon.norm_row(canon.enc_row(ejson.loads(ln))) for ln in grp] for grp in mo.get('resources', [])]
            rep.corr('unstream', case, real_groups, model_groups)


def probe(finding):
    if finding['signature'] == 'ejson:microseconds-dropped':
        v = {'t': datetime.time(1, 2, 3, 500000)}
        return ejson.loads(ejson.dumps(v)) != v
    raise ValueError(finding['signature'])


def run(ctx):
    rep = ctx.report
    rep.rule = ('(a) typed values nested to depth 3 (decimals, dates from year 1, times, naive and zone-aware datetimes with '
                'offsets from -23:59 to +23:59, durations, sets, unicode, ints beyond 2^53) through the real '
                'ejson.dumps/loads: typed equality, tag tree and decoded value vs the model; every 10th value probes '
                'sub-second parts; (b) run/delete histories of length 2-6 over chains of 1-3 checkpoints on typed tables of '
                '0-120 rows: every run equals the first, executed steps = those after the last existing checkpoint '
                '(vs model plan); non-trivial = non-null value / every history run')
    rep.assumptions = ['json text layer of CPython round-trips plain trees', 'user objects carry no tag keys (type{…})']
    codec_part(ctx)
    history_part(ctx)
    from .. import pycorr
    pycorr.run(ctx)

    def search(disagreements):
        rng = ctx.rng('search')
        for _ in range(ctx.n(20000, 100000)):
            v = gen_value(rng)
            try:
                back = ejson.loads(ejson.dumps(v, sort_keys=True))
            except Exception as e:  # noqa
                return {'signature': 'ejson:raises', 'case': {'value': canon.canon_json(v)}, 'detail': repr(e)}
            if not typed_equal(v, back):
                return {'signature': 'ejson:roundtrip', 'case': {'value': canon.canon_json(v)}, 'detail': repr(back)[:300]}
        return None
    return ctx.finish(probe=probe, search=search)


def replay(payload):
    print(json.dumps(payload.get('input'), indent=1)[:3000])
    return 0
