"""C13 — load reproduces the source table faithfully."""
import copy
import csv
import io
import json
import os

import dataflows as DF
from dataflows import Flow
from dataflows.processors.load import load as Load

from .. import pycorr, canon, fast, stepcorr as S  # noqa: F401
from ..common import quiet

CELLS = ['x', 'a b', ' lead', 'trail ', '  both  ', 'q"uote', 'com,ma', 'new\nline', 'ünï', '😀', '12', '-3', '1.5', '007',
         'true', '2020-01-02', '', 'tab\t', '\tx', 'a\xa0', 'z']
HEADERS = ['a', 'b', 'a (1)', 'A', 'col c', 'd,e', 'x"y', 'ü', 'a (2)', 'B', 'id', 'A (1)', 'A (2)', 'Name', 'name', 'Name (1)', 'NAME']
WS = [9, 10, 11, 12, 13, 28, 29, 30, 31, 32, 133, 160, 5760, 8192, 8193, 8194, 8195, 8196, 8197, 8198, 8199, 8200, 8201, 8202,
      8232, 8233, 8239, 8287, 12288]


def gen_table(rng, dup):
    ncols = rng.randint(1, 5)
    headers = [rng.choice(HEADERS) for _ in range(ncols)] if dup else rng.sample(HEADERS, ncols)
    nrows = rng.choice([0, 1, 2, 5, 9])
    rows = [[rng.choice(CELLS) for _ in range(ncols)] for _ in range(nrows)]
    # a data line made only of empty cells is a blank line for the reader; keep at least one visible cell
    for r in rows:
        if all(c == '' for c in r):
            r[0] = 'x'
    return headers, rows


def write_csv(path, headers, rows):
    with open(path, 'w', newline='', encoding='utf-8') as f:
        w = csv.writer(f)
        w.writerow(headers)
        for r in rows:
            w.writerow(r)


def parser_rows(path):
    """the rows tabulator's csv parser (with its sniffed dialect) hands to load's wrappers"""
    try:
        import tabulator
        with tabulator.Stream(path, headers=1) as s:
            return [[('' if c is None else c) for c in r] for r in s.iter()]
    except Exception:  # noqa
        return None


def reference(path):
    """independent pass over the same file"""
    with open(path, newline='', encoding='utf-8') as f:
        rd = list(csv.reader(f))
    return rd[0], rd[1:]


def has_dup(headers, case_sensitive):
    ks = headers if case_sensitive else [h.lower() for h in headers]
    return len(set(ks)) != len(ks)


def unique_spec(headers, case_sensitive):
    ks = [h if case_sensitive else h.lower() for h in headers]
    return len(set(ks)) == len(ks)


def file_case(ctx, rng, idx, pending):
    rep = ctx.report
    dup = rng.random() < 0.4
    headers, rows = gen_table(rng, dup)
    path = os.path.join(ctx.scratch, 't%d.csv' % idx)
    write_csv(path, headers, rows)
    ref_h, ref_rows = reference(path)
    cs = rng.random() < 0.6
    dedup = rng.random() < 0.7
    strip = rng.random() < 0.6
    limit = rng.choice([None, None, 0, 1, 3, 100])
    strategy = rng.choice(['default', 'strings', 'strings-cast', 'schema'])
    name = rng.choice([None, 'tbl'])
    kw = dict(strip=strip, deduplicate_headers=dedup, deduplicate_headers_case_sensitive=cs)
    if limit is not None:
        kw['limit_rows'] = limit
    if name:
        kw['name'] = name
    if strategy == 'strings':
        kw.update(infer_strategy=Load.INFER_STRINGS, cast_strategy=Load.CAST_DO_NOTHING)
    elif strategy == 'strings-cast':
        kw.update(infer_strategy=Load.INFER_STRINGS, cast_strategy=Load.CAST_TO_STRINGS)
    elif strategy == 'schema':
        kw.update(infer_strategy=Load.INFER_STRINGS, cast_strategy=Load.CAST_WITH_SCHEMA)
    case = {'headers': ref_h, 'rows': ref_rows, 'options': {k: (str(v) if not isinstance(v, (bool, int, type(None))) else v) for k, v in kw.items()},
            'strategy': strategy}
    err = None
    try:
        with quiet():
            res, dp, _ = Flow(DF.load(path, **kw)).results(on_error=None)
    except Exception as e:  # noqa
        err = e
    rep.case('load:' + strategy, case, nontrivial=bool(rows))
    rep.hist('strategy', strategy)
    rep.hist('dup_headers', has_dup(ref_h, cs))
    # ---- headers
    if has_dup(ref_h, cs) and not dedup:
        if err is None:
            rep.fail('duplicate-headers-accepted', case, {})
        return
    if err is not None:
        rep.fail('load-raises', case, repr(err)[:300])
        return
    got_headers = [f['name'] for f in dp.descriptor['resources'][0]['schema']['fields']]
    if has_dup(ref_h, cs):
        if len(got_headers) != len(ref_h) or not unique_spec(got_headers, cs):
            rep.fail('dedup-headers-not-unique', case, {'got': got_headers})
        pending.append((case, {'op': 'hdr', 'headers': ref_h, 'case_sensitive': cs, 'fmt_pre': ' (', 'fmt_suf': ')'},
                        {'headers': got_headers}))
    elif got_headers != ref_h:
        rep.fail('headers-changed', case, {'got': got_headers})
        return
    if name and dp.descriptor['resources'][0]['name'] != name:
        rep.fail('name-not-applied', case, dp.descriptor['resources'][0]['name'])
    # ---- rows: one per data line, in order, cell text preserved apart from the optional strip
    exp = []
    for r in ref_rows:
        cells = [(c.strip() if (strip and c and (c[0] in ' \t\n\r' or c[-1] in ' \t\n\r')) else c) for c in r]
        exp.append(cells)
    if limit is not None:
        exp = exp[:limit]
    got = [[row.get(h) for h in got_headers] for row in res[0]]
    if strategy in ('strings', 'strings-cast', 'schema'):
        non_str = [c for r in got for c in r if c is not None and not isinstance(c, str)]
        if non_str:
            rep.fail('string-strategy-yields-non-string', case, {'cells': [repr(c) for c in non_str[:5]]})
    # the empty cell is Table Schema's missing value: null after schema casting
    def norm(c):
        return None if (c == '' and strategy == 'schema') else c
    exp_n = [[norm(c) for c in r] for r in exp]
    if got != exp_n:
        sig = 'rows'
        if len(got) != len(exp_n):
            sig = 'row-count' if limit is None else 'limit_rows'
        elif strip:
            sig = 'cell-text-or-strip'
        else:
            sig = 'cell-text'
            # tabulator's csv parser drops blanks after a delimiter (skipinitialspace) whatever `strip` says
            if all(len(a) == len(b) and all(x == y or (isinstance(x, str) and isinstance(y, str) and y.lstrip(' ') == x)
                                            for x, y in zip(a, b)) for a, b in zip(got, exp_n)):
                sig = 'cell-text:leading-blanks-dropped-with-strip-off'
        rep.fail(sig, case, {'expected': exp_n[:6], 'got': got[:6]})
    if strategy != 'schema':
        # the model's input is what the (third-party, parameter) parser delivers for this file
        parsed = parser_rows(path)
        pending.append((case, {'op': 'wrap', 'rows': parsed if parsed is not None else ref_rows, 'strip': strip, 'ws': WS,
                               **({'limit': limit} if limit is not None else {})}, {'rows': got}))


def cast_case(ctx, rng, idx, pending):
    """schema casting with offending rows: typed values, or the row handled as on_error says; limit_rows on top"""
    import decimal
    from dataflows.base.schema_validator import ValidationError
    rep = ctx.report
    n = rng.choice([3, 6, 12])
    bad_at = sorted(rng.sample(range(2, n), rng.choice([0, 1, 1, 2]) if n > 3 else rng.choice([0, 1])))
    strip = rng.random() < 0.7
    rows = [[str(i), ('n/a' if i in bad_at else '%d.5' % i), rng.choice(['name%d', ' name%d', 'name%d\t', 'na me%d']) % i,
             ('oops' if (i in bad_at and i % 2) else str(i * 10))] for i in range(n)]
    path = os.path.join(ctx.scratch, 'cast%d.csv' % idx)
    write_csv(path, ['id', 'qty', 'name', 'cnt'], rows)
    how = rng.choice(['override_fields', 'sample_size'])
    policy = rng.choice(['raise', 'drop', 'ignore', 'clear'])
    limit = rng.choice([None, 0, 1, 2, 3, 5, 100])
    kw = dict(cast_strategy=Load.CAST_WITH_SCHEMA, strip=strip,
              on_error={'raise': Load.ERRORS_RAISE, 'drop': Load.ERRORS_DROP, 'ignore': Load.ERRORS_IGNORE,
                        'clear': Load.ERRORS_CLEAR}[policy])
    if how == 'override_fields':
        kw['override_fields'] = {'qty': {'type': 'number'}, 'cnt': {'type': 'integer'}}
    else:
        kw['sample_size'] = 2
    if limit is not None:
        kw['limit_rows'] = limit
    case = {'cast-case': {'rows': rows, 'strip': strip, 'typed_by': how, 'on_error': policy, 'limit_rows': limit, 'bad_rows': bad_at}}
    err = None
    try:
        with quiet():
            res, dp, _ = Flow(DF.load(path, **kw)).results(on_error=None)
    except Exception as e:  # noqa
        err = e
    rep.case('load:cast:' + policy, case, nontrivial=bool(bad_at))
    rep.hist('cast_policy', policy)
    lim = n if limit is None else limit

    def typed(r, bad):
        q = r[1] if (bad and policy == 'ignore') else (None if bad else decimal.Decimal(r[1]))
        if r[3] == 'oops':
            c = 'oops' if policy == 'ignore' else None
        else:
            c = int(r[3])
        return {'id': int(r[0]), 'qty': q, 'name': r[2].strip() if strip else r[2], 'cnt': c}
    # ---- correspondence with the model of the wrapper chain: incoming string rows, cast_value outcomes as a table
    from tableschema import Field
    fobj = {'id': Field({'name': 'id', 'type': 'integer'}), 'qty': Field({'name': 'qty', 'type': 'number'}),
            'name': Field({'name': 'name', 'type': 'string'}), 'cnt': Field({'name': 'cnt', 'type': 'integer'})}
    incoming = [dict(zip(['id', 'qty', 'name', 'cnt'], r)) for r in rows]
    tab = {}
    for r in incoming:
        for k, v in r.items():
            try:
                tab[(k, v)] = [k, canon.enc_val(v), canon.enc_val(fobj[k].cast_value(v))]
            except Exception:  # noqa
                tab[(k, v)] = [k, canon.enc_val(v), None]
    op = {'op': 'validate', 'chain': True, 'res': 'cast%d' % idx, 'fields': ['id', 'qty', 'name', 'cnt'], 'policy': policy,
          'rows': [canon.enc_row(r) for r in incoming], 'cast': list(tab.values()), 'strip': strip, 'ws': WS}
    if limit is not None:
        op['limit'] = limit
    cause = getattr(err, 'cause', err)
    if err is None:
        real_c = {'ok': [canon.norm_row(canon.enc_row(dict(r))) for r in res[0]]}
    elif isinstance(cause, ValidationError):
        real_c = {'err': 'validation', 'res': cause.resource_name, 'index': cause.index}
    else:
        real_c = {'err': type(cause).__name__}
    pending.append((case, op, real_c))
    if policy == 'raise':
        expect_err = any(i < lim for i in bad_at)
        if expect_err != (err is not None):
            rep.fail('cast:raise:%s' % ('offending-row-accepted' if expect_err else 'raises-without-offending-row'), case, repr(err)[:300])
        elif err is not None and not isinstance(getattr(err, 'cause', err), ValidationError):
            rep.fail('cast:raise:wrong-error', case, repr(err)[:300])
        if err is not None or expect_err:
            return
        want = [typed(r, False) for r in rows[:lim]]
    else:
        if err is not None:
            rep.fail('cast:%s:raises' % policy, case, repr(err)[:300])
            return
        if policy == 'drop':
            want = [typed(r, False) for i, r in enumerate(rows) if i not in bad_at][:lim]
        else:
            want = [typed(r, i in bad_at) for i, r in enumerate(rows)][:lim]
    got = [dict(r) for r in res[0]]
    if got != want:
        sig = 'cast:%s:%s' % (policy, 'row-count' if len(got) != len(want) else 'values')
        if limit is not None and len(got) != len(want):
            sig = 'cast:%s:limit_rows-not-exactly-n' % policy
        rep.fail(sig, case, {'expected': repr(want)[:600], 'got': repr(got)[:600]})


def headers_case(ctx, rng, idx):
    """the header row given explicitly (headers=N): names come from line N, one row per line after it, whatever
    the lines before it look like (titles, notes: shorter than the table)"""
    rep = ctx.report
    n_pre = rng.choice([0, 1, 1, 2])
    pre = [rng.choice([['Report 2020'], ['generated', 'by x'], ['note']]) for _ in range(n_pre)]
    ncol = rng.choice([2, 3, 4])
    header = ['c%d' % i for i in range(ncol)]
    rows = [[('r%dc%d' % (i, j)) for j in range(ncol)] for i in range(rng.choice([1, 3, 6]))]
    path = os.path.join(ctx.scratch, 'hdr%d.csv' % idx)
    with open(path, 'w', newline='', encoding='utf-8') as f:
        w = csv.writer(f)
        for r in pre + [header] + rows:
            w.writerow(r)
    kw = {'headers': n_pre + 1}
    if rng.random() < 0.3:
        kw['limit_rows'] = 2
    case = {'headers-case': {'lines_before_header': pre, 'header': header, 'rows': rows, 'options': kw}}
    try:
        with quiet():
            res, dp, _ = Flow(DF.load(path, **kw)).results(on_error=None)
    except Exception as e:  # noqa
        rep.case('load:headers', case, nontrivial=False)
        rep.fail('headers:load-raises', case, repr(e)[:300])
        return
    rep.case('load:headers', case)
    got_h = [f['name'] for f in dp.descriptor['resources'][0]['schema']['fields']]
    if got_h != header:
        rep.fail('headers:names-not-from-the-requested-line', case, {'got': got_h})
        return
    want = [dict(zip(header, r)) for r in rows][:kw.get('limit_rows', len(rows))]
    got = [dict(r) for r in res[0]]
    if got != want:
        rep.fail('headers:rows', case, {'expected': want[:4], 'got': got[:4]})


def selection_case(ctx, rng, idx):
    """load from a data package on disk / from (descriptor, iterators): exactly the requested resources"""
    rep = ctx.report
    names = rng.sample(['a', 'ab', 'a.b', 'b', 'res_1'], rng.randint(1, 4))
    sel = S.gen_sel(rng, names, allow_bad=False)
    if idx % 3 == 1:
        # systematically: a plain name as the selector, next to resources whose names are parts of it
        names = rng.sample(['ab', 'a', 'b', 'res_1', 'res_1_b'], 5)[:rng.randint(3, 5)]
        sel = rng.choice([n for n in names if len(n) > 1])
    elif idx % 3 == 2:
        # systematically: a position as the selector, the name found there being no pattern that matches itself
        names = rng.sample(['q+', 'a(1)', 'a', 'b'], rng.randint(2, 4))
        sel = rng.randrange(len(names)) - rng.choice([0, len(names)])
    tables = {n: [{'id': i, 'v': '%s%d' % (n, i)} for i in range(rng.choice([0, 1, 3]))] for n in names}
    kind = rng.choice(['tuple', 'package'])
    flags = [S.py_selects(sel, names, i, n) for i, n in enumerate(names)]
    case = {'source': kind, 'names': names, 'selector': canon._plain(sel)}
    try:
        with quiet():
            if kind == 'tuple':
                d = canon.make_descriptor([{'name': n, 'fields': [('id', 'integer'), ('v', 'string')]} for n in names])
                res, dp, _ = Flow(DF.load((d, [iter(copy.deepcopy(tables[n])) for n in names]), resources=sel)).results(on_error=None)
            else:
                out = os.path.join(ctx.scratch, 'pkg%d' % idx)
                Flow(*[copy.deepcopy(tables[n]) or [{'id': 0, 'v': 'x'}] for n in names],
                     *[DF.update_resource('res_%d' % (i + 1), name=n, path=n + '.csv') for i, n in enumerate(names)],
                     DF.dump_to_path(out)).process()
                res, dp, _ = Flow(DF.load(os.path.join(out, 'datapackage.json'), resources=sel)).results(on_error=None)
    except Exception as e:  # noqa
        rep.case('select:' + kind, case, nontrivial=False)
        rep.fail('select:%s:raises' % kind, case, repr(e)[:300])
        return
    rep.case('select:' + kind, case)
    got = [r['name'] for r in dp.descriptor['resources']]
    want = [n for n, f in zip(names, flags) if f]
    if got != want:
        rep.fail('select:%s:wrong-resources' % kind, case, {'expected': want, 'got': got})
    elif kind == 'tuple':
        for n, rows in zip(got, res):
            if [r['v'] for r in rows] != [r['v'] for r in tables[n]]:
                rep.fail('select:tuple:rows-misaligned', case, {'resource': n, 'got': rows})


def probe(finding):
    if finding['signature'] == 'cell-text:leading-blanks-dropped-with-strip-off':
        import shutil
        base = os.path.join(os.path.dirname(os.path.dirname(os.path.dirname(os.path.abspath(__file__)))), 'scratch', 'probe-c13')
        os.makedirs(base, exist_ok=True)
        try:
            write_csv(os.path.join(base, 't.csv'), ['a', 'b'], [['q"uote', '  y  ']])
            with quiet():
                res = Flow(DF.load(os.path.join(base, 't.csv'), strip=False)).results(on_error=None)[0][0]
            return res[0]['b'] != '  y  '
        finally:
            shutil.rmtree(base, ignore_errors=True)
    raise ValueError(finding['signature'])


def run(ctx):
    rep = ctx.report
    rep.rule = ('generated CSV files (quotes, delimiters, newlines in cells, unicode, surrounding blanks incl. tabs and NBSP, '
                'numeric-looking and empty cells, duplicate headers differing or not in case, headers that already look '
                'like generated names) x infer/cast strategy x strip x limit_rows (0 included) x name x de-duplication '
                'flags, compared with an independent csv.reader pass; typed columns with offending cells x on_error (raise / drop / ignore / clear) x limit_rows; packages / (descriptor, iterators) x selector forms; '
                'non-trivial = at least one data row')
    rep.assumptions = ['tabulator parsing and Schema.infer are third-party: faithfulness of the parse is by comparison only',
                       'the empty cell is the missing value of Table Schema']
    rng = ctx.rng('main')
    pending = []
    for idx in range(ctx.n(500, 6000)):
        file_case(ctx, rng, idx, pending)
    for idx in range(ctx.n(120, 1200)):
        selection_case(ctx, rng, idx)
    rng_h = ctx.rng('headers')
    for idx in range(ctx.n(80, 800)):
        headers_case(ctx, rng_h, idx)
    rng_c = ctx.rng('cast')
    for idx in range(ctx.n(250, 3000)):
        cast_case(ctx, rng_c, idx, pending)
    if ctx.model.available():
        outs = ctx.model.run([op for _, op, _ in pending])
        for (case, op, real), mo in zip(pending, outs):
            if op['op'] == 'validate' and 'ok' in mo:
                mo = {'ok': [canon.norm_row(r) for r in mo['ok']]}
            rep.corr(op['op'] if op['op'] != 'validate' else 'loadchain', case, real, mo)
    else:
        rep.disagreements.append({'op': 'hdr', 'case': 'driver unavailable', 'real': None, 'model': None})

    def search(disagreements):
        rng2 = ctx.rng('search')
        before = len(rep.oracle_failures)
        for idx in range(ctx.n(3000, 15000)):
            file_case(ctx, rng2, 10 ** 6 + idx, [])
            if len(rep.oracle_failures) > before:
                o = rep.oracle_failures[before]
                return {'signature': o['signature'], 'case': o['case'], 'detail': o['detail']}
        return None
    pycorr.run(ctx)
    return ctx.finish(probe=probe, search=search)


def replay(payload):
    print(json.dumps(payload.get('input'), indent=1)[:3000])
    return 0
