"""C01 — lazy chained execution equals step-by-step evaluation of the same steps."""
import collections
import collections.abc
import copy
import functools
import inspect
import os

import dataflows as DF
from dataflows import Flow, DataStreamProcessor
from dataflows.base.exceptions import ProcessorError

from .. import canon, stepcorr as S, stepprop as P
from ..common import quiet

PIPE_PROCS = ['delete_fields', 'select_fields', 'rename_fields', 'add_field', 'filter_rows', 'deduplicate',
              'delete_resource', 'set_primary_key', 'update_resource', 'duplicate', 'unpivot', 'concatenate']


# ------------------------------------------------------------------ link dispatch

class Marker:
    def __init__(self):
        self.how = []


def link_zoo():
    """representative link objects: (label, factory(marker) -> object)"""
    def row_fn(mk):
        def f(row):
            mk.how.append('row' if isinstance(row, dict) else 'other')
        return f

    def rows_fn(mk):
        def f(rows):
            mk.how.append('rows' if hasattr(rows, 'res') else 'other')
            yield from rows
        return f

    def package_fn(mk):
        def f(package):
            mk.how.append('package' if hasattr(package, 'pkg') else 'other')
            yield package.pkg
            yield from package
        return f

    class Obj:
        def __init__(self, mk):
            self.mk = mk

        def m_row(self, row):
            self.mk.how.append('row' if isinstance(row, dict) else 'other')

        def m_rows(self, rows):
            self.mk.how.append('rows' if hasattr(rows, 'res') else 'other')
            yield from rows

        def m_package(self, package):
            self.mk.how.append('package' if hasattr(package, 'pkg') else 'other')
            yield package.pkg
            yield from package

    class CallRow:
        def __init__(self, mk):
            self.mk = mk

        def __call__(self, row):
            self.mk.how.append('row' if isinstance(row, dict) else 'other')

    class CallRows:
        def __init__(self, mk):
            self.mk = mk

        def __call__(self, rows):
            self.mk.how.append('rows' if hasattr(rows, 'res') else 'other')
            yield from rows

    def two(mk, row):
        mk.how.append('row' if isinstance(row, dict) else 'other')

    def two_rows(mk, rows):
        mk.how.append('rows' if hasattr(rows, 'res') else 'other')
        yield from rows

    class Proc(DataStreamProcessor):
        def __init__(self, mk):
            super().__init__()
            self.mk = mk

        def process_row(self, row):
            self.mk.how.append('processor')
            return row

    zoo = [
        ('function(row)', row_fn), ('function(rows)', rows_fn), ('function(package)', package_fn),
        ('lambda(row)', lambda mk: (lambda row: mk.how.append('row'))),
        ('bound-method(row)', lambda mk: Obj(mk).m_row), ('bound-method(rows)', lambda mk: Obj(mk).m_rows),
        ('bound-method(package)', lambda mk: Obj(mk).m_package),
        ('partial(row)', lambda mk: functools.partial(two, mk)), ('partial(rows)', lambda mk: functools.partial(two_rows, mk)),
        ('callable-object(row)', CallRow), ('callable-object(rows)', CallRows),
        ('function(x)', lambda mk: (lambda x: mk.how.append('row'))),
        ('function(a,b)', lambda mk: (lambda a, b: mk.how.append('row'))),
        ('function()', lambda mk: (lambda: mk.how.append('row'))),
        ('class', lambda mk: Proc),
        ('None', lambda mk: None), ('int', lambda mk: 5), ('float', lambda mk: 1.5), ('object()', lambda mk: object()),
        ('list-of-dicts', lambda mk: [{'z': 1}]), ('generator', lambda mk: ({'z': i} for i in range(2))),
        ('tuple-of-lists', lambda mk: ([1, 2], [3, 4])),
        ('Flow', lambda mk: Flow(row_fn(mk))), ('processor', Proc),
        ('builtin-step', lambda mk: DF.add_field('zz', 'integer', 1)),
    ]
    return zoo


def describe(obj):
    d = {'isFlow': isinstance(obj, Flow), 'isProcessor': isinstance(obj, DataStreamProcessor),
         'isFunction': inspect.isfunction(obj), 'isCallable': callable(obj),
         'isIterable': isinstance(obj, collections.abc.Iterable)}
    if callable(obj):
        try:
            d['params'] = list(inspect.signature(obj).parameters)
        except (TypeError, ValueError):
            pass
    return d


def observe_dispatch(obj, mk):
    """what the real Flow did with the link"""
    base = [{'a': 1}, {'a': 2}]
    try:
        with quiet():
            res, dp, _ = Flow(copy.deepcopy(base), obj).results()
    except Exception:
        return 'rejected'
    if mk.how:
        kinds = set(mk.how)
        if kinds == {'row'}:
            return 'row'
        if kinds == {'rows'}:
            return 'rows'
        if kinds == {'package'}:
            return 'package'
        if kinds == {'processor'}:
            return 'processor'
        return 'other:%s' % sorted(kinds)
    if len(res) == 2:
        return 'iterable'
    if res == [base]:
        fields = [f['name'] for f in dp.descriptor['resources'][0]['schema']['fields']]
        if fields != ['a']:
            return 'applied'
        return 'skipped'
    return 'applied'


def dispatch_part(ctx):
    rep = ctx.report
    ops, cases = [], []
    for label, mkobj in link_zoo():
        mk = Marker()
        obj = mkobj(mk)
        d = describe(obj)
        real = observe_dispatch(obj, mk)
        case = {'link': label, 'described': d}
        rep.case('dispatch', case, nontrivial=True)
        rep.hist('dispatch_real', real)
        if real == 'skipped':
            rep.fail('dispatch:silently-skipped:%s' % label, case, {'real': real})
        if label.startswith(('bound-method', 'partial', 'callable-object', 'function(row', 'function(rows', 'function(package',
                             'lambda')) and real not in ('row', 'rows', 'package'):
            rep.fail('dispatch:callable-not-applied:%s' % label, case, {'real': real})
        op = dict(d)
        op['op'] = 'dispatch'
        ops.append(op)
        cases.append((case, real))
    if ctx.model.available():
        outs = ctx.model.run(ops)
        for (case, real), mo in zip(cases, outs):
            m = mo['dispatch']
            # a nested Flow / Flow object: its inner function is applied → the marker says 'row'
            if m == 'nested':
                m = 'row'
            if real == 'applied' and m in ('package', 'processor', 'rows', 'row'):
                m = 'applied'
            rep.corr('dispatch', case, real, m)
    else:
        rep.disagreements.append({'op': 'dispatch', 'case': 'driver unavailable', 'real': None, 'model': None})


# ------------------------------------------------------------------ pipelines: real lazy vs model staged

def desc_from_enc(enc):
    return canon.make_descriptor([{'name': r['name'], 'path': r.get('path') or (r['name'] + '.csv'),
                                   'fields': [(f['name'], f['type']) for f in r['fields']], 'pk': r['pk']} for r in enc])


def pipeline_part(ctx):
    rep = ctx.report
    rng = ctx.rng('pipeline')
    n = ctx.n(250, 4000)
    pipes = []
    for _ in range(n):
        desc, rows = S.gen_pkg(rng, max_res=3)
        pipes.append({'desc': desc, 'rows': rows, 'steps': [], 'cur': canon.enc_pkg(desc, rows), 'alive': True,
                      'len': rng.randint(1, 6), 'model': None})
    if not ctx.model.available():
        rep.disagreements.append({'op': 'pipeline', 'case': 'driver unavailable', 'real': None, 'model': None})
        return
    for depth in range(6):
        batch = []
        for p in pipes:
            if not p['alive'] or len(p['steps']) >= p['len'] or not p['cur']:
                continue
            cur_desc = desc_from_enc(p['cur'])
            proc = rng.choice(PIPE_PROCS)
            a = S.PROCS[proc].gen(rng, cur_desc, None)
            margs, pm, full, sub = S.PROCS[proc].enc(a, cur_desc)
            full = list(full) + S.sel_ext(a.get('sel'), cur_desc)
            margs['sel'] = canon.enc_sel(a.get('sel'))
            op = {'op': 'step', 'proc': proc, 'args': margs, 'pkg': p['cur'], 'ext': canon.regex_ext(pm, full, sub)}
            batch.append((p, proc, a, op))
        if not batch:
            break
        outs = ctx.model.run([b[3] for b in batch])
        for (p, proc, a, _), mo in zip(batch, outs):
            if 'ok' in mo and len({r['name'] for r in mo['ok']}) != len(mo['ok']):
                # the step would create two resources with one name: not a well-formed package; propose nothing
                p['len'] = len(p['steps'])
                continue
            p['steps'].append((proc, a))
            if 'ok' in mo:
                p['cur'] = mo['ok']
                p['model'] = {'ok': mo['ok']}
            else:
                p['alive'] = False
                p['model'] = {'err': mo['err']}
    for p in pipes:
        if not p['steps']:
            continue
        steps = [S.PROCS[proc].real(copy.deepcopy(a)) for proc, a in p['steps']]
        real = S.run_real(steps, p['desc'], p['rows'])
        case = {'steps': [[proc, S.jsonable_args(a)] for proc, a in p['steps']], 'desc': p['desc'],
                'rows': canon._plain(p['rows'])}
        rep.case('pipeline', case, nontrivial='ok' in real and len(p['steps']) > 1)
        rep.hist('pipeline_len', len(p['steps']))
        rep.hist('pipeline_outcome', 'ok' if 'ok' in real else real['err'])
        rep.corr('pipeline', case, S.norm_result(real), S.norm_result(p['model']))
        # oracle on the real code alone, for the same pipeline
        for sig, detail in lazy_vs_staged(p['steps'], p['desc'], p['rows'], real, rng):
            rep.fail(sig, case, detail)


def run_steps_real(step_factories, desc, rows):
    steps = [f() for f in step_factories]
    return S.run_real(steps, desc, rows)


def lazy_vs_staged(steps, desc, rows, real_lazy, rng, facts=None):
    """(1) each step alone on the materialised output of the previous one; (2) regrouping into nested
    Flows / always-true conditionals; (3) results / process / datastream"""
    out = []
    if facts is None:
        facts = [(lambda proc=proc, a=a: S.PROCS[proc].real(copy.deepcopy(a))) for proc, a in steps]
    # (1) staged on the real code
    cur_desc, cur_rows = desc, rows
    staged = None
    for f in facts:
        try:
            with quiet():
                res, dp, _ = Flow(canon.pkg_source(cur_desc, cur_rows), f()).results(on_error=None)
            cur_desc, cur_rows = dp.descriptor, res
            staged = {'ok': canon.enc_pkg(dp.descriptor, res)}
        except Exception as e:  # noqa
            staged = {'err': S.classify_exc(e)}
            break
    both_fail = 'err' in (staged or {}) and 'err' in real_lazy     # ill-typed sequence: which failing step is met first differs
    if not both_fail and S.norm_result(staged) != S.norm_result(real_lazy):
        out.append(('lazy-vs-staged', {'lazy': S.norm_result(real_lazy), 'staged': S.norm_result(staged)}))
    if 'ok' not in real_lazy or len(facts) < 2:
        return out
    # (2) regroup
    k = rng.randint(1, len(facts) - 1)
    variants = {
        'nested-split': lambda: [Flow(*[f() for f in facts[:k]]), Flow(*[f() for f in facts[k:]])],
        'nested-middle': lambda: [f() for f in facts[:k - 1]] + [Flow(*[f() for f in facts[k - 1:k + 1]])] + [f() for f in facts[k + 1:]],
        'conditional-true': lambda: [f() for f in facts[:k]] + [DF.conditional(lambda dp: True, Flow(*[f() for f in facts[k:]]))],
        'conditional-callable': lambda: [f() for f in facts[:k]] + [DF.conditional(lambda dp: True, lambda dp: Flow(*[f() for f in facts[k:]]))],
        'nested-deep': lambda: [Flow(Flow(*[f() for f in facts[:k]]), Flow(Flow(*[f() for f in facts[k:]])))],
    }
    name = rng.choice(sorted(variants))
    alt = S.run_real(variants[name](), desc, rows)
    if S.norm_result(alt) != S.norm_result(real_lazy):
        out.append(('regroup:%s' % name, {'flat': S.norm_result(real_lazy), 'regrouped': S.norm_result(alt)}))
    # the same regrouping over a one-shot source whose package phase counts its invocations: every step of
    # the chain takes effect exactly once, however the steps are grouped
    calls = []

    def counting(package):
        calls.append(1)
        yield package.pkg
        yield from package
    try:
        with quiet():
            gen_sources = [(dict(r) for r in copy.deepcopy(rw)) for rw in rows if rw]
            if gen_sources:
                grouped = variants[name]()
                res_g = Flow(*gen_sources, counting, *grouped).results(on_error=None)[0]
                flat_g = Flow(*[(dict(r) for r in copy.deepcopy(rw)) for rw in rows if rw], *[f() for f in facts]).results(on_error=None)[0]
                if len(calls) != 1:
                    out.append(('regroup:%s:upstream-package-phase-ran-%d-times' % (name, len(calls)), {}))
                if [[canon.norm_row(canon.enc_row(r)) for r in rs] for rs in res_g] != \
                        [[canon.norm_row(canon.enc_row(r)) for r in rs] for rs in flat_g]:
                    out.append(('regroup:%s:one-shot-source' % name, {'rows_flat': [len(r) for r in flat_g],
                                                                       'rows_regrouped': [len(r) for r in res_g]}))
    except Exception:
        pass   # the generated steps may not apply to inferred iterable schemas; the package-source variant above decides
    # (3) the three APIs
    try:
        collected = []

        def collector(rows):
            cur = []
            collected.append(cur)
            for r in rows:
                cur.append(copy.deepcopy(r))
                yield r
        with quiet():
            dp2, _ = Flow(canon.pkg_source(desc, rows), *[f() for f in facts], collector).process()
        via_process = {'ok': canon.enc_pkg(dp2.descriptor, collected)}
        with quiet():
            ds = Flow(canon.pkg_source(desc, rows), *[f() for f in facts]).datastream()
            drained = [list(r) for r in ds.res_iter]
        via_ds = {'ok': canon.enc_pkg(ds.dp.descriptor, drained)}
    except Exception as e:  # noqa
        out.append(('api:process-or-datastream-raised', repr(e)[:300]))
        return out
    if S.norm_result(via_process) != S.norm_result(real_lazy):
        out.append(('api:process-differs', {'results': S.norm_result(real_lazy), 'process': S.norm_result(via_process)}))
    if S.norm_result(via_ds) != S.norm_result(real_lazy):
        out.append(('api:datastream-differs', {'results': S.norm_result(real_lazy), 'datastream': S.norm_result(via_ds)}))
    return out


# ------------------------------------------------------------------ a retaining step, then a step that drops its source

def retain_then_drop_part(ctx):
    """`duplicate(X)` / `join(X -> Y, source_delete=False)` keep working on X's rows while they stream; a later
    `delete_resource(X)` drops X.  Lazily chained, the copy / the joined fields must be what the step-by-step
    evaluation gives (every step takes effect on the full output of the previous one), in every regrouping and API."""
    rep = ctx.report
    rng = ctx.rng('retain-drop')
    for i in range(ctx.n(40, 500)):
        nres = rng.randint(1, 3)
        resources, rows = [], []
        for k in range(nres):
            name = 'r%d' % k
            resources.append({'name': name, 'fields': [('k', 'integer'), ('s', 'string'), ('v', 'integer')]})
            rows.append([{'k': rng.choice([1, 2, 3]), 's': rng.choice(['a', 'b', None]), 'v': j}
                         for j in range(rng.choice([0, 1, 3, 7] if i % 7 else [150]))])
        desc = canon.make_descriptor(resources)
        src = rng.randrange(nres)
        sname = 'r%d' % src
        sel = rng.choice([sname, src, [sname], '^%s$' % sname if False else sname])
        middle = rng.choice([None, lambda: DF.add_field('m', 'integer', 7), lambda: DF.filter_rows(lambda r: r['v'] % 2 == 0)])
        if i % 2 == 0 or nres == 1:
            to_end = rng.random() < 0.5
            kind = 'duplicate(to_end=%s)' % to_end
            facts = [lambda: DF.duplicate(sname, 'copy', 'copy.csv', duplicate_to_end=to_end, batch_size=rng.choice([1, 1000]))]
        else:
            tgt = 'r%d' % rng.choice([k for k in range(nres) if k != src])
            kind = 'join(source_delete=False)'
            facts = [lambda: DF.join(sname, ['k'], tgt, ['k'], {'cnt': {'aggregate': 'count'}, 'first_s': {'name': 's', 'aggregate': 'first'}},
                                     source_delete=False)]
        if middle is not None:
            facts.append(middle)
        facts.append(lambda: DF.delete_resource(sel))
        case = {'retain-then-drop': kind, 'middle': middle is not None, 'drop': repr(sel), 'rows': [len(r) for r in rows]}
        real = S.run_real([f() for f in facts], desc, rows)
        rep.case('retain-then-drop', case, nontrivial='ok' in real and any(rows[src]))
        rep.hist('retain_then_drop', kind)
        for sig, detail in lazy_vs_staged(None, desc, rows, real, rng, facts=facts):
            rep.fail('retain-then-drop:' + sig, dict(case, desc=desc, data=canon._plain(rows)), detail)


# ------------------------------------------------------------------ user callables and retaining steps (real code only)

def user_part(ctx):
    """pipelines mixing user row/rows/package callables of every kind (incl. in-place mutators placed
    after retaining steps) with built-ins, crossing the 100-row inference sample"""
    rep = ctx.report
    rng = ctx.rng('user')

    class Obj:
        def __init__(self, k):
            self.k = k

        def mut(self, row):
            row['a'] = row['a'] + self.k

        def __call__(self, row):
            row['b'] = '%s!' % row['b']

        def keep(self, rows):
            for r in rows:
                if r['a'] % self.k != 0:
                    yield r

    def add_k(k, row):
        return dict(row, a=row['a'] * k)

    def edit_pkg(package):
        package.pkg.descriptor['title'] = 't'
        yield package.pkg
        for res in package:
            yield (dict(r, b=r['b'].upper()) for r in res)

    def pkg_none(package):
        yield None
        yield from package

    def keep_first(package):
        # a package function may drop trailing resources: trim the descriptor, hand on only the first stream
        package.pkg.descriptor['resources'] = package.pkg.descriptor['resources'][:1]
        yield package.pkg
        for i, res in enumerate(package):
            yield res
            if i == 0:
                break

    def drop_last(package):
        n = len(package.pkg.descriptor['resources'])
        package.pkg.descriptor['resources'] = package.pkg.descriptor['resources'][:max(1, n - 1)]
        yield package.pkg
        for i, res in enumerate(package):
            if i < max(1, n - 1):
                yield res
            if i + 1 >= max(1, n - 1):
                break

    def mk_steps():
        pool = [
            ('bound-mut', lambda: Obj(3).mut), ('callable-obj', lambda: Obj(0)), ('partial-new-row', lambda: functools.partial(add_k, 2)),
            ('bound-rows-filter', lambda: Obj(4).keep), ('package-edit', lambda: edit_pkg), ('package-none', lambda: pkg_none),
            ('package-keep-first', lambda: keep_first), ('package-drop-last', lambda: drop_last),
            ('lambda-row', lambda: (lambda row: row.update(a=row['a'] - 1))),
            ('duplicate', lambda: DF.duplicate(batch_size=rng.choice([1, 7, 1000]))),
            ('duplicate-end', lambda: DF.duplicate(duplicate_to_end=True)),
            ('sort', lambda: DF.sort_rows('{a}', resources=0)), ('sort-rev', lambda: DF.sort_rows('{a}', reverse=True, resources=0)),
            ('set_type', lambda: DF.set_type('a', type='integer', resources=0)),
            ('add_field', lambda: DF.add_field('c', 'string', 'x')), ('dedup', lambda: DF.deduplicate()),
            ('pk', lambda: DF.set_primary_key(['a'], resources=0)),
            ('filter', lambda: DF.filter_rows(not_equals=[{'a': 5}])),
            ('printer', lambda: DF.printer(num_rows=1)),
            ('iterable', lambda: [{'z': 1}, {'z': 2}]),
            ('delete-last', lambda: DF.delete_resource(-1)),
        ]
        k = rng.randint(2, 8)
        chosen = [pool[rng.randrange(len(pool))] for _ in range(k)]
        special[0] = tick[0] % 3 == 0
        if special[0]:
            # every third pipeline: a second resource, later a package function that drops trailing resources,
            # and at least one more step behind it
            byname = dict(pool)
            safe = ['lambda-row', 'add_field', 'filter', 'package-edit', 'callable-obj', 'printer']
            dropper = rng.choice(['package-keep-first', 'package-drop-last'])
            second = rng.choice(['duplicate', 'duplicate-end'])
            chosen = ([(second, byname[second])] +
                      [(n, byname[n]) for n in rng.sample(safe, rng.randint(0, 2))] +
                      [(dropper, byname[dropper])] +
                      [(n, byname[n]) for n in rng.sample(safe, rng.randint(1, 2))])
        tick[0] += 1
        return chosen

    tick = [0]
    special = [False]
    for _ in range(ctx.n(150, 2500)):
        n = rng.choice([0, 1, 3, 99, 100, 101, 260])
        data = [{'a': (i * 7) % 11, 'b': 'v%d' % (i % 5)} for i in range(n)]
        if not data:
            data = [{'a': 1, 'b': 'q'}]
        chosen = mk_steps()
        labels = [l for l, _ in chosen]
        facts = [f for _, f in chosen]
        case = {'user-pipeline': labels, 'n': len(data)}

        one_shot = rng.random() < 0.5

        def run(step_objs):
            try:
                with quiet():
                    src = (dict(r) for r in copy.deepcopy(data)) if one_shot else copy.deepcopy(data)
                    res, dp, _ = Flow(src, *step_objs).results(on_error=None)
                return {'ok': canon.enc_pkg(dp.descriptor, res)}
            except Exception as e:  # noqa
                return {'err': S.classify_exc(e)}
        lazy = run([f() for f in facts])
        rep.case('user-pipeline', case, nontrivial='ok' in lazy)
        rep.hist('user_outcome', 'ok' if 'ok' in lazy else lazy['err'])
        if any(l in ('package-keep-first', 'package-drop-last') for l in labels):
            rep.hist('user_outcome_with_dropping_function', 'ok' if 'ok' in lazy else lazy['err'])
        if special[0]:
            # these pipelines consist of steps that cannot fail on this data: a package function that drops trailing
            # resources is a legitimate link, the run succeeds and delivers exactly the kept resources
            if 'ok' not in lazy:
                rep.fail('user:dropping-package-function-fails', case, lazy)
            elif len(lazy['ok']) != 1:
                rep.fail('user:dropped-resources-still-delivered', case, {'resources': [r['name'] for r in lazy['ok']]})
        # staged: materialise after every step
        cur = None
        staged = None
        for i, f in enumerate(facts):
            try:
                with quiet():
                    if cur is None:
                        res, dp, _ = Flow(copy.deepcopy(data), f()).results(on_error=None)
                    else:
                        res, dp, _ = Flow(canon.pkg_source(cur[0], cur[1]), f()).results(on_error=None)
                cur = (dp.descriptor, res)
                staged = {'ok': canon.enc_pkg(dp.descriptor, res)}
            except Exception as e:  # noqa
                staged = {'err': S.classify_exc(e)}
                break
        unread = any(l in ('package-keep-first', 'package-drop-last') for l in labels)
        if unread and 'err' in staged and 'ok' in lazy:
            # a step fails on rows of a resource that a later package function drops without reading: the lazy
            # run never computes those rows; the sequence is not well-typed for step-by-step evaluation
            rep.hist('user_outcome', 'staged-fails-on-rows-never-read')
        elif 'err' in lazy and 'err' in staged:
            # not a well-typed sequence: which of two failing steps is met first differs by construction (the lazy run
            # executes every package phase before the first row moves); both runs fail, nothing to compare
            rep.hist('user_outcome', 'both-fail')
        elif S.norm_result(lazy) != S.norm_result(staged):
            sig = 'user:lazy-vs-staged'
            rep.fail(sig, case, {'lazy': str(S.norm_result(lazy))[:1500], 'staged': str(S.norm_result(staged))[:1500]})
        if 'ok' in lazy and len(facts) >= 2:
            k = rng.randint(1, len(facts) - 1)
            alt = run([Flow(*[f() for f in facts[:k]]), DF.conditional(lambda dp: True, Flow(*[f() for f in facts[k:]]))])
            if S.norm_result(alt) != S.norm_result(lazy):
                rep.fail('user:regroup', case, {'k': k})


def row_return_part(ctx):
    """row callables by what they return: None (edited in place), a new row, an empty row, a row with other keys; the
    step takes effect exactly as written, for every row, whatever the value looks like (falsy included)"""
    rep = ctx.report
    rng = ctx.rng('row-return')

    def project_non_null(row):
        return {k: v for k, v in row.items() if v is not None}

    def only_flag(row):
        return {'flag': True} if row.get('a') else {}

    def in_place(row):
        row['a'] = (row.get('a') or 0) + 1

    def replace(row):
        return dict(row, b='R')
    fns = {'project-non-null': project_non_null, 'only-flag-or-empty': only_flag, 'in-place': in_place, 'replace': replace}
    for _ in range(ctx.n(60, 600)):
        n = rng.choice([1, 3, 120])
        data = [{'a': rng.choice([None, 0, 1, 5]), 'b': rng.choice([None, 'x', 'y'])} for _ in range(n)]
        data[0] = {'a': 1, 'b': 'x'}        # a typed first row for the inference
        names = [rng.choice(sorted(fns)) for _ in range(rng.randint(1, 3))]
        case = {'row-return': names, 'rows': canon._plain(data)}
        # specification: apply the functions as written
        want = []
        for r in copy.deepcopy(data):
            for nm in names:
                ret = fns[nm](r)
                r = r if ret is None else ret
            want.append(r)
        try:
            with quiet():
                ds = Flow(copy.deepcopy(data), *[fns[nm] for nm in names]).datastream()
                got = [dict(r) for r in list(ds.res_iter)[0]]
        except Exception as e:  # noqa
            rep.case('row-return', case, nontrivial=False)
            rep.fail('row-return:raises', case, repr(e)[:300])
            continue
        rep.case('row-return', case)
        if got != want:
            i = next((i for i, (a, b) in enumerate(zip(got, want)) if a != b), None)
            rep.fail('row-return:row-differs-from-what-the-function-returned', case,
                     {'index': i, 'got': repr(got[i])[:200] if i is not None else len(got),
                      'expected': repr(want[i])[:200] if i is not None else len(want)})


def equal_values_part(ctx):
    """values that compare equal but are not the same value (1 / True / 1.0, Decimal('1.10') / Decimal('1.1'), one instant at
    two UTC offsets) in one column: results(), process() and datastream() hand out the very values the steps produced"""
    import datetime
    import decimal
    rep = ctx.report
    rng = ctx.rng('equal-values')
    tz2 = datetime.timezone(datetime.timedelta(hours=2))
    pools = {'int-bool-float': [1, True, 1.0, 0, False, 0.0, 2, 'x'],
             'decimal-scales': [decimal.Decimal('1.10'), decimal.Decimal('1.1'), decimal.Decimal('1.100'), decimal.Decimal('2'), decimal.Decimal('2.0')],
             'datetime-offsets': [datetime.datetime(2020, 1, 1, 12, 0, tzinfo=datetime.timezone.utc), datetime.datetime(2020, 1, 1, 14, 0, tzinfo=tz2),
                                  datetime.datetime(2020, 1, 1, 13, 0, tzinfo=tz2)]}

    def exact(tables):
        return [[sorted((k, repr(v)) for k, v in r.items()) for r in t] for t in tables]
    for j in range(ctx.n(18, 120)):
        name = sorted(pools)[j % 3]
        n = [3, 12, 150][(j // 3) % 3]
        data = [{'k': i, 'v': rng.choice(pools[name])} for i in range(n)]
        steps = [[], [lambda row: None], [DF.add_field('z', 'integer', 0)]][j % 3 if j % 2 else 0]
        case = {'equal-but-distinct-values': name, 'rows': n, 'steps': len(steps)}
        try:
            with quiet():
                via_results = exact(Flow(copy.deepcopy(data), *steps).results()[0])
                ds = Flow(copy.deepcopy(data), *steps).datastream()
                via_ds = exact([list(r) for r in ds.res_iter])
                collected = []

                def collector(rows):
                    cur = []
                    collected.append(cur)
                    for r in rows:
                        cur.append(copy.deepcopy(r))
                        yield r
                Flow(copy.deepcopy(data), *steps, collector).process()
                via_process = exact(collected)
        except Exception as e:  # noqa
            rep.case('equal-values', case, nontrivial=False)
            rep.fail('equal-values:raises', case, repr(e)[:300])
            continue
        rep.case('equal-values', case)
        if via_results != via_ds:
            i = next((i for i, (a, b) in enumerate(zip(via_results[0], via_ds[0])) if a != b), None)
            rep.fail('api:results-differs-from-datastream:equal-values', case,
                     {'row': i, 'results': via_results[0][i] if i is not None else None, 'datastream': via_ds[0][i] if i is not None else None})
        if via_process != via_ds:
            rep.fail('api:process-differs-from-datastream:equal-values', case, {})


def run(ctx):
    rep = ctx.report
    rep.rule = ('(a) every kind of link object through Flow (dispatch); (b) random well-typed pipelines of 1-6 Layer-A steps on '
                'packages of 1-3 resources: real lazy run vs model staged fold, and on the real code alone lazy vs '
                'step-by-step, regrouping (nested flows, always-true conditionals, callable flows) and results/process/'
                'datastream; (c) pipelines of 2-8 user callables of every kind and retaining built-ins over 1-260 rows; '
                'non-trivial = ran successfully with more than one step')
    rep.assumptions = ['object aliasing is not modelled: probed by (c) with in-place mutators after retaining steps']
    with quiet():
        dispatch_part(ctx)
    pipeline_part(ctx)
    retain_then_drop_part(ctx)
    user_part(ctx)
    row_return_part(ctx)
    equal_values_part(ctx)
    from .. import pycorr
    pycorr.run(ctx)

    def search(disagreements):
        before = len(rep.oracle_failures)
        ctx.seed_shift = 1
        user_part(ctx)
        if len(rep.oracle_failures) > before:
            o = rep.oracle_failures[before]
            return {'signature': o['signature'], 'case': o['case'], 'detail': o['detail']}
        return None
    return ctx.finish(search=search)


def replay(payload):
    import json
    print(json.dumps(payload.get('input'), indent=1)[:3000])
    return 0
