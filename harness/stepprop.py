"""Shared runner for the properties decided over Layer-A steps (C10, C15, C16, C17, C02):
correspondence `step` op + a property oracle evaluated on the real output."""
import copy
import re

from . import canon, stepcorr as S


def run_cases(ctx, procs, oracle, n, salt='main', gen_hook=None):
    """generate n cases over `procs`, run the real code, the oracle and (batched) the model"""
    rep = ctx.report
    rng = ctx.rng(salt)
    pending = []
    for _ in range(n):
        proc = rng.choice(procs)
        desc, rows = S.gen_pkg(rng)
        a = S.PROCS[proc].gen(rng, desc, rows)
        if gen_hook:
            desc, rows, a = gen_hook(rng, proc, desc, rows, a)
        one_case(ctx, proc, a, desc, rows, oracle, pending)
    flush_model(ctx, pending)


def one_case(ctx, proc, a, desc, rows, oracle, pending):
    rep = ctx.report
    step_obj = S.PROCS[proc].real(copy.deepcopy(a))
    real = S.run_real([step_obj], desc, rows)
    # every fourth case: the same step object serves a second flow (fresh copy of the package) identically
    ctx._reuse_tick = getattr(ctx, '_reuse_tick', 0) + 1
    if ctx._reuse_tick % 4 == 0:
        again = S.run_real([step_obj], desc, rows)
        if S.norm_result(again) != S.norm_result(real):
            rep.fail('reuse:%s:second-run-differs' % proc, {'proc': proc, 'args': S.jsonable_args(a), 'desc': desc,
                                                           'rows': canon._plain(rows)},
                     {'first': str(S.norm_result(real))[:500], 'second': str(S.norm_result(again))[:500]})
    # every third case over two or more resources: the consumer reads the resources side by side (datastream())
    if proc in S.INDEPENDENT and len(rows) >= 2 and 'ok' in real and ctx._reuse_tick % 3 == 0:
        inter = S.run_interleaved([S.PROCS[proc].real(copy.deepcopy(a))], desc, rows)
        rep.hist('interleaved', proc)
        if S.norm_result(inter) != S.norm_result(real):
            rep.fail('interleaved:%s:differs-from-sequential' % proc,
                     {'proc': proc, 'args': S.jsonable_args(a), 'desc': desc, 'rows': canon._plain(rows)},
                     {'sequential': str(S.norm_result(real))[:600], 'side-by-side': str(S.norm_result(inter))[:600]})
    case = {'proc': proc, 'args': S.jsonable_args(a), 'desc': desc, 'rows': canon._plain(rows)}
    nontrivial = 'ok' in real and any(len(r) for r in rows)
    rep.case(proc, case, nontrivial=nontrivial)
    rep.hist('outcome', 'ok' if 'ok' in real else real['err'])
    rep.hist('sel_form', type(a.get('sel')).__name__)
    rep.hist('n_res', len(desc['resources']))
    if oracle:
        for sig, detail in oracle(proc, a, desc, rows, real) or []:
            rep.fail(sig, case, detail)
    pending.append((case, S.model_op(proc, a, desc, rows), S.norm_result(real)))


def flush_model(ctx, pending):
    if not pending:
        return
    if not ctx.model.available():
        ctx.report.notes.append('model driver unavailable: %d correspondence cases skipped' % len(pending))
        ctx.report.disagreements.append({'op': 'step', 'case': 'driver unavailable', 'real': None, 'model': None})
        pending.clear()
        return
    outs = ctx.model.run([op for _, op, _ in pending])
    for (case, _op, real), mo in zip(pending, outs):
        ctx.report.corr('step:' + case['proc'], case, real, S.norm_result(mo))
    pending.clear()


def selected_flags(a, desc):
    names = S.res_names(desc)
    return [S.py_selects(a.get('sel'), names, i, n) for i, n in enumerate(names)]


def sel_invalid(a, desc):
    sel = a.get('sel')
    n = len(desc['resources'])
    if isinstance(sel, int) and not isinstance(sel, bool):
        return not (-n <= sel < n)
    return False


def res_equal(enc_a, enc_b):
    return canon.norm_pkg([enc_a]) == canon.norm_pkg([enc_b])


def frame_oracle(proc, a, desc, rows, real, removes_selected=False):
    """C10 frame: resources the specification does not select are found unchanged, in order"""
    out = []
    if sel_invalid(a, desc):
        if 'ok' in real:
            out.append(('frame:%s:bad-index-accepted' % proc, {'real': 'returned normally'}))
        return out
    if 'ok' not in real:
        return out
    flags = selected_flags(a, desc)
    inp = canon.enc_pkg(desc, rows)
    unsel_in = [r for r, f in zip(inp, flags) if not f]
    names_unsel = [r['name'] for r in unsel_in]
    outp = real['ok']
    unsel_out = [r for r in outp if r['name'] in names_unsel]
    if canon.norm_pkg(unsel_in) != canon.norm_pkg(unsel_out):
        out.append(('frame:%s:unselected-changed' % proc,
                    {'expected': canon.norm_pkg(unsel_in), 'got': canon.norm_pkg(unsel_out)}))
    return out


def search_from_disagreements(ctx, oracle, procs):
    """failing-input search: the oracle on the disagreeing cases, then a 10x budget aimed at the
    processors that disagreed"""
    def search(disagreements):
        bad_procs = sorted({d['case']['proc'] for d in disagreements if isinstance(d.get('case'), dict)}) or procs
        rng = ctx.rng('search')
        for _ in range(ctx.n(3000, 20000)):
            proc = rng.choice(bad_procs)
            desc, rows = S.gen_pkg(rng)
            a = S.PROCS[proc].gen(rng, desc, rows)
            real = S.run_real([S.PROCS[proc].real(copy.deepcopy(a))], desc, rows)
            for sig, detail in oracle(proc, a, desc, rows, real) or []:
                return {'signature': sig, 'detail': detail,
                        'case': {'proc': proc, 'args': S.jsonable_args(a), 'desc': desc, 'rows': canon._plain(rows)}}
        return None
    return search
