"""`step` correspondence: one built-in processor on one materialised package, real code vs
Layer-A model.  Generators are structured (valid inputs from the repo's own types, names
built to collide) and every random choice comes from the rng passed in."""
import copy
import datetime
import decimal
import re

import dataflows as DF
from dataflows import Flow
from dataflows.base.exceptions import ProcessorError
from dataflows.base.schema_validator import ValidationError

from . import canon, fast  # noqa: F401
from .common import quiet

RES_NAMES = ['a', 'ab', 'a.b', 'a-b', 'b', 'res_1', 'res_10', 'ba']
FIELD_NAMES = ['a', 'ab', 'a.b', 'a b', 'a|b', 'a(1)', 'A', 'b', 'ä', 'year2000', 'year2001', 'x_y', 'ba']
SEL_PATTERNS = ['a', 'ab', 'a.*', 'a.b', 'a|b', '.*', 'res_.*', 'res_1', 'b|res_1', '(a|b)', 'a-b', 'x', 'a?b', 'res_1.?']
FIELD_PATTERNS = ['a', 'ab', 'a.*', 'a.b', 'a|b', 'a b', 'a(1)', 'A', 'b', 'ä', 'year\\d+', 'year2000', 'x_y', '.*',
                  'year(\\d+)', 'a\\(1\\)', '[ab]', 'zz']
TYPES = ['integer', 'string', 'number', 'boolean', 'date']


def gen_value(rng, typ, nulls=True):
    if nulls and rng.random() < 0.15:
        return None
    if typ == 'integer':
        # -1/-2 and 0/2**61-1 are distinct values with equal Python hashes
        return rng.choice([0, 1, -1, -2, 2, 3, 7, 10, 2 ** 53 + 1, -5, 100, 2 ** 61 - 1])
    if typ == 'string':
        return rng.choice(['', 'x', 'y', 'xy', 'a b', 'q"q', 'ü', 'x', 'year', '1'])
    if typ == 'number':
        return rng.choice([decimal.Decimal('1.5'), decimal.Decimal('-2.25'), decimal.Decimal('1'), decimal.Decimal('0'),
                           decimal.Decimal('1.50'), decimal.Decimal('10.125'), decimal.Decimal('-1'), decimal.Decimal('-2')])
    if typ == 'boolean':
        return rng.choice([True, False])
    if typ == 'date':
        return datetime.date(rng.choice([1999, 2000, 2020]), rng.randint(1, 12), rng.randint(1, 28))
    return rng.choice([0, 'x', True])


def gen_resource(rng, name, max_fields=5, max_rows=6, field_pool=None, types=None):
    pool = list(field_pool or FIELD_NAMES)
    nf = rng.randint(1, max_fields)
    names = rng.sample(pool, min(nf, len(pool)))
    fields = [(n, rng.choice(types or TYPES)) for n in names]
    nrows = rng.choice([0, 1, 2, 3, max_rows])
    rows = [{n: gen_value(rng, t) for n, t in fields} for _ in range(nrows)]
    pk = []
    if rng.random() < 0.3:
        pk = rng.sample(names, rng.randint(1, min(2, len(names))))
    return {'name': name, 'fields': fields, 'pk': pk}, rows


def gen_pkg(rng, min_res=1, max_res=4, **kw):
    n = rng.randint(min_res, max_res)
    names = rng.sample(RES_NAMES, n)
    resources, rows = [], []
    for name in names:
        r, rw = gen_resource(rng, name, **kw)
        resources.append(r)
        rows.append(rw)
    return canon.make_descriptor(resources), rows


def gen_sel(rng, names, allow_bad=True):
    k = rng.random()
    if k < 0.2:
        return None
    if k < 0.5:
        return rng.choice(SEL_PATTERNS + [re.escape(n) for n in names])
    if k < 0.75:
        pool = names + ['zz']
        return rng.sample(pool, rng.randint(0, min(3, len(pool))))
    n = len(names)
    if allow_bad and rng.random() < 0.1:
        return rng.choice([n, -n - 1, n + 3])
    return rng.randint(-n, n - 1)


def py_selects(sel, names, pos, name):
    """the specification of C10, computed with Python's re.fullmatch"""
    if sel is None:
        return True
    if isinstance(sel, str):
        return re.fullmatch(sel, name) is not None
    if isinstance(sel, int):
        return pos == (sel if sel >= 0 else len(names) + sel)
    return name in sel


# --------------------------------------------------------------------------- processors
# each entry: gen(rng, desc, rows) -> args ; real(args) -> step ; enc(args, desc) -> (model args, pmatch, full, sub)

def all_field_names(desc):
    out = []
    for r in desc['resources']:
        for f in r['schema']['fields']:
            out.append(f['name'])
    return sorted(set(out))


def res_names(desc):
    return [r['name'] for r in desc['resources']]


def sel_ext(sel, desc):
    if isinstance(sel, str):
        return [(sel, n) for n in res_names(desc) + ['concat']]
    return []


class Proc:
    selector = True          # takes `resources=`
    default_sel = None

    def real(self, a):
        raise NotImplementedError

    def enc(self, a, desc):
        raise NotImplementedError


class DeleteFields(Proc):
    name = 'delete_fields'

    def gen(self, rng, desc, rows):
        return {'fields': rng.sample(FIELD_PATTERNS + all_field_names(desc), rng.randint(1, 2)),
                'regex': rng.random() < 0.6, 'sel': gen_sel(rng, res_names(desc))}

    def real(self, a):
        return DF.delete_fields(list(a['fields']), resources=a['sel'], regex=a['regex'])

    def enc(self, a, desc):
        pats = [canon.anchored(a['regex'], f) for f in a['fields']]
        pm = [(p, n) for p in pats for n in all_field_names(desc)]
        return {'fields': a['fields'], 'regex': a['regex']}, pm, [], []


class SelectFields(DeleteFields):
    name = 'select_fields'

    def real(self, a):
        return DF.select_fields(list(a['fields']), resources=a['sel'], regex=a['regex'])


class RenameFields(Proc):
    name = 'rename_fields'

    def gen(self, rng, desc, rows, collide=False):
        names = all_field_names(desc) or ['a']
        k = rng.random()
        if k < 0.5:
            srcs = rng.sample(names, rng.randint(1, min(2, len(names))))
            fields = {s: 'n%d' % i for i, s in enumerate(srcs)}
            regex = rng.random() < 0.3
        elif k < 0.8:
            fields = {'year(\\d+)': 'y_\\1'} if rng.random() < 0.5 else {'(a)(.*)': '\\2_\\1'}
            regex = True
        else:
            fields = {rng.choice(FIELD_PATTERNS): 'n0', rng.choice(names): 'n1'}
            regex = rng.random() < 0.5
        if not collide and len(names) >= 2 and rng.random() < 0.25:
            a, b = rng.sample(names, 2)
            fields = rng.choice([{a: b, b: a}, {a: b, b: 'n9'}, {b: 'n9', a: b}])
            regex = False
        if collide:
            fields = {rng.choice(names): rng.choice(names)}
        return {'fields': fields, 'regex': regex, 'sel': gen_sel(rng, res_names(desc))}

    def real(self, a):
        return DF.rename_fields(dict(a['fields']), resources=a['sel'], regex=a['regex'])

    def enc(self, a, desc):
        pairs = [[canon.anchored(a['regex'], s), t] for s, t in a['fields'].items()]
        names = all_field_names(desc)
        pm = [(p, n) for p, _ in pairs for n in names]
        sub = [(p, t, n) for p, t in pairs for n in names]
        return {'fields': [[s, t] for s, t in a['fields'].items()], 'regex': a['regex']}, pm, [], sub


class AddField(Proc):
    name = 'add_field'

    def gen(self, rng, desc, rows):
        typ = rng.choice(['integer', 'string', 'boolean'])
        return {'name': rng.choice(['new', 'n1', 'zz']), 'type': typ, 'default': gen_value(rng, typ),
                'sel': gen_sel(rng, res_names(desc))}

    def real(self, a):
        return DF.add_field(a['name'], a['type'], a['default'], resources=a['sel'])

    def enc(self, a, desc):
        return {'field': {'name': a['name'], 'type': a['type'], 'rest': ''},
                'default': canon.enc_val(a['default'])}, [], [], []


class FilterRows(Proc):
    name = 'filter_rows'

    def gen(self, rng, desc, rows):
        sel = gen_sel(rng, res_names(desc))
        # conditions over fields of some resource; a field missing in a selected resource is a KeyError
        r = rng.choice(desc['resources'])
        fs = r['schema']['fields']

        if not fs:
            return {'equals': [], 'not_equals': [], 'sel': sel}

        def cond():
            f = rng.choice(fs)
            v = gen_value(rng, f['type'])
            if f['type'] == 'integer' and rng.random() < 0.3:
                v = rng.choice([True, decimal.Decimal('1.0'), decimal.Decimal(v or 0)])
            return [f['name'], v]
        return {'equals': [cond() for _ in range(rng.randint(0, 2))],
                'not_equals': [cond() for _ in range(rng.randint(0, 2))], 'sel': sel}

    def real(self, a):
        return DF.filter_rows(equals=[{k: v} for k, v in a['equals']],
                              not_equals=[{k: v} for k, v in a['not_equals']], resources=a['sel'])

    def enc(self, a, desc):
        return {'equals': [[k, canon.enc_val(v)] for k, v in a['equals']],
                'not_equals': [[k, canon.enc_val(v)] for k, v in a['not_equals']]}, [], [], []


class Deduplicate(Proc):
    name = 'deduplicate'

    def gen(self, rng, desc, rows):
        return {'sel': gen_sel(rng, res_names(desc))}

    def real(self, a):
        return DF.deduplicate(resources=a['sel'])

    def enc(self, a, desc):
        return {}, [], [], []


class DeleteResource(Proc):
    name = 'delete_resource'

    def gen(self, rng, desc, rows):
        return {'sel': gen_sel(rng, res_names(desc))}

    def real(self, a):
        return DF.delete_resource(a['sel'])

    def enc(self, a, desc):
        return {}, [], [], []


class SetPrimaryKey(Proc):
    name = 'set_primary_key'

    def gen(self, rng, desc, rows):
        names = all_field_names(desc) or ['a']
        return {'pk': rng.sample(names, rng.randint(1, min(2, len(names)))), 'sel': gen_sel(rng, res_names(desc))}

    def real(self, a):
        return DF.set_primary_key(list(a['pk']), resources=a['sel'])

    def enc(self, a, desc):
        return {'pk': a['pk']}, [], [], []


class UpdateResource(Proc):
    name = 'update_resource'

    def gen(self, rng, desc, rows):
        return {'props': {'title': rng.choice(['t1', 't2']), 'x-n': rng.randint(0, 3)},
                'sel': gen_sel(rng, res_names(desc))}

    def real(self, a):
        return DF.update_resource(a['sel'], **a['props'])

    def enc(self, a, desc):
        return {'props': [[k, canon.canon_json(v)] for k, v in a['props'].items()]}, [], [], []


class Duplicate(Proc):
    name = 'duplicate'
    selector = False

    def gen(self, rng, desc, rows):
        names = res_names(desc)
        a = {'source': rng.choice(names + [None]), 'target_name': rng.choice([None, 'copy', 'zz']),
             'target_path': rng.choice([None, 'data/copy.csv']), 'duplicate_to_end': rng.random() < 0.5,
             'batch_size': rng.choice([1, 2, 1000]), 'sel': None}
        return a

    def real(self, a):
        return DF.duplicate(source=a['source'], target_name=a['target_name'], target_path=a['target_path'],
                            batch_size=a['batch_size'], duplicate_to_end=a['duplicate_to_end'])

    def enc(self, a, desc):
        m = {'duplicate_to_end': a['duplicate_to_end']}
        for k in ('source', 'target_name', 'target_path'):
            if a[k] is not None:
                m[k] = a[k]
        return m, [], [], []


class Unpivot(Proc):
    name = 'unpivot'

    def gen(self, rng, desc, rows):
        k = rng.random()
        if k < 0.4:
            ufs = [{'name': 'year(\\d+)', 'keys': {'year': '\\1', 'kind': 'y'}}]
            regex = True
            eks = [{'name': 'year', 'type': 'string'}, {'name': 'kind', 'type': 'string'}]
        elif k < 0.7:
            names = all_field_names(desc) or ['a']
            pick = rng.sample(names, rng.randint(1, min(2, len(names))))
            ufs = [{'name': n, 'keys': {'k': n, 'n': i}} for i, n in enumerate(pick)]
            if len(ufs) > 1 and rng.random() < 0.5:
                # the specifications need not derive the same keys: a later one with fewer keys, or other ones
                ufs[-1]['keys'] = rng.choice([{'k': pick[-1]}, {'m': 'only'}, {}])
            regex = False
            eks = [{'name': 'k', 'type': 'string'}, {'name': 'n', 'type': 'integer'}, {'name': 'm', 'type': 'string'}]
        else:
            ufs = [{'name': rng.choice(['a.*', '[ab]', 'a|b', '(a)(.*)']), 'keys': {'k': 'f_\\g<0>'}},
                   {'name': rng.choice(['b', 'x_y', 'year2000']), 'keys': rng.choice([{'k': 'second'}, {'k': 'second'}, {'k2': 'second'}, {}])}]
            regex = True
            eks = [{'name': 'k', 'type': 'string'}, {'name': 'k2', 'type': 'string'}]
        return {'unpivot_fields': ufs, 'extra_keys': eks, 'extra_value': {'name': 'value', 'type': 'any'},
                'regex': regex, 'sel': gen_sel(rng, res_names(desc))}

    def real(self, a):
        return DF.unpivot(copy.deepcopy(a['unpivot_fields']), copy.deepcopy(a['extra_keys']),
                          copy.deepcopy(a['extra_value']), regex=a['regex'], resources=a['sel'])

    def enc(self, a, desc):
        names = all_field_names(desc)
        full, sub = [], []
        if a['regex']:
            for u in a['unpivot_fields']:
                for n in names:
                    full.append((u['name'], n))
                    for v in u['keys'].values():
                        if isinstance(v, str):
                            sub.append((u['name'], v, n))
        m = {'unpivot_fields': [{'name': u['name'], 'keys': [[k, canon.enc_val(v)] for k, v in u['keys'].items()]}
                                for u in a['unpivot_fields']],
             'extra_keys': [canon.enc_field(f) for f in a['extra_keys']],
             'extra_value': canon.enc_field(a['extra_value']), 'regex': a['regex']}
        return m, [], full, sub


class Concatenate(Proc):
    name = 'concatenate'

    def gen(self, rng, desc, rows):
        names = all_field_names(desc) or ['a']
        tgt = {}
        used = set()
        for i in range(rng.randint(1, 3)):
            t = rng.choice(names + ['t%d' % i])
            if t in used:
                continue
            srcs = [s for s in rng.sample(names, rng.randint(0, min(2, len(names)))) if s not in used and s != t]
            used.add(t)
            used.update(srcs)
            tgt[t] = srcs
        return {'fields': tgt, 'target': rng.choice([{}, {'name': 'target'}, {'name': 'zz', 'path': 'zz/zz.csv'}]),
                'sel': gen_sel(rng, res_names(desc))}

    def real(self, a):
        return DF.concatenate(copy.deepcopy(a['fields']), target=copy.deepcopy(a['target']), resources=a['sel'])

    def enc(self, a, desc):
        tname = a['target'].get('name', 'concat')
        tpath = a['target'].get('path', 'data/' + tname + '.csv')
        return {'fields': [[t, list(s)] for t, s in a['fields'].items()], 'target_name': tname,
                'target_path': tpath}, [], [], []


class FindReplace(Proc):
    name = 'find_replace'
    FINDS = ['a', 'a.', '(\\d+)-(\\d+)', 'x|y', '^x', 'y$', 'q"q', ' ', '', 'None', '1']

    def gen(self, rng, desc, rows):
        # text fields only: str() of other cell types is outside the model
        strs = sorted({f['name'] for r in desc['resources'] for f in r['schema']['fields'] if f['type'] == 'string'} -
                      {f['name'] for r in desc['resources'] for f in r['schema']['fields'] if f['type'] == 'number'})
        names = rng.sample(strs, rng.randint(1, min(2, len(strs)))) if strs else ['no-such-field']
        if strs and rng.random() < 0.1:
            names.append('no-such-field')
        fields = []
        for n in names:
            pats = []
            for _ in range(rng.randint(0, 3)):
                find = rng.choice(self.FINDS)
                pats.append({'find': find, 'replace': '\\2/\\1' if find.startswith('(') else rng.choice(['Q', '', 'aa', 'y'])})
            fields.append({'name': n, 'patterns': pats})
        return {'fields': fields, 'sel': gen_sel(rng, res_names(desc))}

    def real(self, a):
        return DF.find_replace(copy.deepcopy(a['fields']), resources=a['sel'])

    def enc(self, a, desc, rows=None):
        sub = []
        for rws in (rows or []):
            for r in rws:
                for f in a['fields']:
                    v = r.get(f['name'])
                    if v is not None and not isinstance(v, decimal.Decimal):
                        v = str(v)      # the same field name may be an int / bool / date column elsewhere
                        for p in f['patterns']:
                            sub.append((p['find'], p['replace'], v))
                            v = re.sub(p['find'], p['replace'], v)
        return {'fields': [{'name': f['name'], 'patterns': [[p['find'], p['replace']] for p in f['patterns']]}
                           for f in a['fields']]}, [], [], sub


class AddComputedField(Proc):
    name = 'add_computed_field'

    def gen(self, rng, desc, rows):
        op = rng.choice(['sum', 'max', 'min', 'multiply', 'constant', 'join'])
        # a field name may occur with different types in different resources: keep the names whose every
        # occurrence is inside the model (exact numbers for arithmetic; ints and strings for join's str())
        def only(types):
            occ = {}
            for r in desc['resources']:
                for f in r['schema']['fields']:
                    occ.setdefault(f['name'], set()).add(f['type'])
            return sorted(n for n, ts in occ.items() if ts <= set(types))
        nums, ints, texty = only(['integer', 'number']), only(['integer']), only(['integer', 'string'])
        pool = {'constant': [], 'join': texty}.get(op, nums if rng.random() < 0.8 else ints)
        srcs = rng.sample(pool, rng.randint(0 if op in ('sum', 'join') else 1, min(3, len(pool)))) if pool else []
        if op != 'constant' and rng.random() < 0.1:
            srcs.append('no-such-field')
        return {'target': rng.choice(['res__', 'n1']), 'operation': op, 'source': srcs,
                'with': {'constant': 'c', 'join': rng.choice(['-', '', ', '])}.get(op, ''),
                'sel': gen_sel(rng, res_names(desc))}

    def real(self, a):
        return DF.add_computed_field([{'target': a['target'], 'operation': a['operation'], 'source': list(a['source']),
                                       'with': a['with']}], resources=a['sel'])

    def enc(self, a, desc, rows=None):
        return {'target': a['target'], 'operation': a['operation'], 'source': list(a['source']), 'with': a['with']}, [], [], []


PROCS = {p.name: p for p in [DeleteFields(), SelectFields(), RenameFields(), AddField(), FilterRows(), Deduplicate(),
                             DeleteResource(), SetPrimaryKey(), UpdateResource(), Duplicate(), Unpivot(),
                             Concatenate(), FindReplace(), AddComputedField()]}


# --------------------------------------------------------------------------- running

def classify_exc(e):
    if isinstance(e, ProcessorError):
        e = e.cause
    if isinstance(e, AssertionError):
        return 'assertion'
    if isinstance(e, (KeyError, IndexError)):
        return 'keyError'
    if isinstance(e, TypeError):
        return 'typeError'
    if isinstance(e, AttributeError):
        return 'attributeError'
    if isinstance(e, ValidationError):
        return 'validation'
    if isinstance(e, RuntimeError):
        return 'runtime'
    if isinstance(e, re.error):
        return 'reError'
    if isinstance(e, ValueError):
        return 'runtime'       # max() / min() of an empty sequence: the model's `runtime`
    return type(e).__name__


def run_real(steps, desc, rows, validate=False):
    """run real steps on a materialised package → {'ok': encoded pkg} | {'err': kind}"""
    try:
        with quiet():
            f = Flow(canon.pkg_source(desc, rows), *steps)
            if validate:
                res, dp, _ = f.results()
            else:
                res, dp, _ = f.results(on_error=None)
        return {'ok': canon.enc_pkg(dp.descriptor, res)}
    except Exception as e:  # noqa
        return {'err': classify_exc(e), 'exc': repr(e)[:300]}


# processors that treat every resource on its own: the order in which a consumer reads the resources cannot matter
INDEPENDENT = {'filter_rows', 'deduplicate', 'unpivot', 'delete_fields', 'select_fields', 'rename_fields', 'add_field',
               'find_replace', 'add_computed_field', 'set_primary_key', 'update_resource'}


def run_interleaved(steps, desc, rows):
    """the same flow consumed through datastream(): every resource is requested before any row is read, then the rows
    are read round-robin (one row of each resource in turn)"""
    try:
        with quiet():
            ds = Flow(canon.pkg_source(desc, rows), *steps).datastream()
            iters = [iter(r) for r in ds.res_iter]
            out = [[] for _ in iters]
            live = list(range(len(iters)))
            while live:
                for i in list(live):
                    try:
                        out[i].append(next(iters[i]))
                    except StopIteration:
                        live.remove(i)
        return {'ok': canon.enc_pkg(ds.dp.descriptor, out)}
    except Exception as e:  # noqa
        return {'err': classify_exc(e), 'exc': repr(e)[:300]}


def model_op(proc, a, desc, rows):
    p = PROCS[proc]
    if proc in ('find_replace', 'add_computed_field'):
        margs, pm, full, sub = p.enc(a, desc, rows)
    else:
        margs, pm, full, sub = p.enc(a, desc)
    full = list(full) + sel_ext(a.get('sel'), desc)
    margs['sel'] = canon.enc_sel(a.get('sel'))
    return {'op': 'step', 'proc': proc, 'args': margs, 'pkg': canon.enc_pkg(desc, rows),
            'ext': canon.regex_ext(pm, full, sub)}


def norm_result(r):
    if 'ok' in r:
        return {'ok': canon.norm_pkg(r['ok'])}
    return {'err': r['err']}


def valid_regexes(a):
    """False when Python rejects one of the patterns (re.error) — such cases are compared on the
    real side only (both must raise)"""
    pats = []
    if isinstance(a.get('sel'), str):
        pats.append(a['sel'])
    for p in pats:
        try:
            re.compile(p)
        except re.error:
            return False
    return True


def jsonable_args(a):
    return canon._plain(a)
