"""Harness-side speed-up of a third-party self check.

`datapackage.Profile.__init__` re-validates the library's *own bundled* JSON-Schema profile
(`check_schema`) on every `Package(...)`/`Resource(...)` construction (~10 ms each, nine times
per small flow).  The check does not depend on the descriptor; we memoise it per profile name
in the harness process.  dataflows itself is untouched; descriptor validation
(`Profile.validate`, `Package.valid`) is untouched."""
import datapackage.profile as _p

_checked = set()
_orig = _p.Profile._check_schema


def _check_schema(self):
    key = (self._name if isinstance(self._name, str) else id(self._name))
    if key in _checked:
        return
    _orig(self)
    _checked.add(key)


_p.Profile._check_schema = _check_schema
