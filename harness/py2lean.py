"""Translator: selected functions of the /repo working tree  →  terms of the PyLite embedding
(lean/DfModel/PyLite.lean), written to lean/Generated/PyAst.lean on every run.

The translation is syntax-directed and total: a construct outside the subset becomes an
`unsupported "<what>"` node, so that only the tie theorems about that function stop checking
(never the whole build).  What each Python construct becomes is documented next to the
evaluator that gives it a meaning; `harness/pycorr.py` runs the real functions and the
evaluator on the same arguments (correspondence op `pyeval`)."""
import ast
import importlib
import inspect
import os

from .common import LEAN_DIR
from .live import lean_str, LiveError

BUILTIN_CALLS = {'len', 'int', 'list', 'tuple', 'set', 'sorted', 'any', 'all', 'max', 'min', 'enumerate', 'dict'}
MUTATORS = {'add', 'append', 'update'}
# methods that change an *external* object held in a local: `bits.invert(0)` becomes `bits = <.invert!>(bits, 0)`, the
# external returning the object after the change
EXT_MUTATORS = {'invert', 'put'}    # x.put(v): the queue x as a value, `x = <.put!>(x, v)`
MODULES = ('re', 'collections', 'copy', 'os', 'json', 'itertools', 'logging', 'exceptions', 'isodate', 'decimal', 'datetime')
BINOPS = {ast.Add: '+', ast.Sub: '-', ast.Mult: '*', ast.Div: '/', ast.Mod: '%'}
CMPOPS = {ast.Eq: '==', ast.NotEq: '!=', ast.Lt: '<', ast.LtE: '<=', ast.Gt: '>', ast.GtE: '>=',
          ast.Is: 'is', ast.IsNot: 'isnot', ast.In: 'in', ast.NotIn: 'notin'}

BCTOR = {'+': 'add', '-': 'sub', '*': 'mul', '/': 'div', '%': 'mod', 'neg': 'neg', '==': 'eq', '!=': 'ne', '<': 'lt', '>': 'gt',
         '<=': 'le', '>=': 'ge', 'is': 'is_', 'isnot': 'isnot', 'in': 'in_', 'notin': 'notin', 'getitem': 'getitem',
         'attr': 'attr', 'mk.tuple': 'mkTuple', 'mk.list': 'mkList', 'mk.set': 'mkSet', 'mk.dict': 'mkDict', 'len': 'len',
         'int': 'int_', 'list': 'list_', 'tuple': 'tuple_', 'set': 'set_', 'sorted': 'sorted', 'flatten': 'flatten',
         'any': 'any', 'all': 'all', 'max': 'max', 'min': 'min', 'isinstance:str': 'isStr', 'isinstance:int': 'isInt',
         'isinstance:list': 'isList', 'isinstance:tuple': 'isTuple', 'isinstance:dict': 'isDict',
         'isinstance:Counter': 'isCounter', 'Counter': 'counter', 're.compile': 'reCompile', '.union': 'union',
         '.get': 'get', '.items': 'items', '.keys': 'keys', '.most_common': 'mostCommon', '.lower': 'lower',
         '.count': 'count', 'deepcopy': 'deepcopy', 'enumerate': 'enumerate', '.strip': 'strip', 'dict': 'dict_'}

# lean name -> (module, locator[, extra parameters: closure variables / attributes of self the function reads]).  A locator is a path of names through classes / functions; the special
# head 'AGGREGATORS' reads entry <key>, component <func|finaliser> of join's aggregator table.
FUNCTIONS = [
    ('identity', 'dataflows.processors.join', ['identity']),
    ('median', 'dataflows.processors.join', ['median']),
    ('update_counter', 'dataflows.processors.join', ['update_counter']),
    ('matcher_init', 'dataflows.helpers.resource_matcher', ['ResourceMatcher', '__init__']),
    ('matcher_match', 'dataflows.helpers.resource_matcher', ['ResourceMatcher', 'match'], ['self.resources', 'self.re']),
    ('handler_ignore', 'dataflows.base.schema_validator', ['ignore']),
    ('handler_drop', 'dataflows.base.schema_validator', ['drop']),
    ('handler_clear', 'dataflows.base.schema_validator', ['clear']),
    ('handler_raise', 'dataflows.base.schema_validator', ['raise_exception']),
    ('filter_conditions', 'dataflows.processors.filter_rows', ['old_style_conditions', 'func'], ['equals', 'not_equals']),
    ('filter_process', 'dataflows.processors.filter_rows', ['process_resource']),
    ('deduper', 'dataflows.processors.deduplicate', ['deduper']),
    ('unpivot_rows', 'dataflows.processors.unpivot', ['unpivot_rows']),
    # duplicate: where the copy's descriptor goes
    ('duplicate_traverse', 'dataflows.processors.duplicate', ['duplicate', 'func', 'traverse_resources'],
     ['source_', 'target_name_', 'target_path_', 'duplicate_to_end']),
    # add_computed_field: the declared type of a computed field
    ('computed_get_type', 'dataflows.processors.add_computed_field', ['get_type']),
    # select_fields: which schema fields are selected, in which order (the loops over the patterns and the remaining names)
    ('select_schema_loop', 'dataflows.processors.select_fields', ['select_fields', 'func', '@for:0', '@if:0', '@for:0']),
    # delete_fields: which schema fields stay (the package phase's loop over the fields of a selected resource)
    ('delete_schema_loop', 'dataflows.processors.delete_fields', ['delete_fields', 'func', '@for:0', '@if:0', '@for:0']),
    ('concatenator', 'dataflows.processors.concatenate', ['concatenator']),
    ('delete_process', 'dataflows.processors.delete_fields', ['process_resource']),
    ('select_process', 'dataflows.processors.select_fields', ['process_resource']),
    ('rename_process', 'dataflows.processors.rename_fields', ['process_resource']),
    ('load_limiter', 'dataflows.processors.load', ['load', 'limiter'], ['self.limit_rows']),
    ('load_stripper', 'dataflows.processors.load', ['load', 'stripper']),
    # the row-phase dispatch loops of the selector-taking processors ('@for:k' = the k-th `for` statement of the body)
    ('loop_filter_rows', 'dataflows.processors.filter_rows', ['filter_rows', 'func', '@for:-1']),
    ('loop_deduplicate', 'dataflows.processors.deduplicate', ['deduplicate', 'func', '@for:-1']),
    ('loop_sort_rows', 'dataflows.processors.sort_rows', ['sort_rows', 'func', '@for:-1']),
    ('loop_find_replace', 'dataflows.processors.find_replace', ['find_replace', 'func', '@for:-1']),
    ('loop_parallelize', 'dataflows.processors.parallelize', ['parallelize', 'func', '@for:-1']),
    ('loop_set_primary_key', 'dataflows.processors.set_primary_key', ['set_primary_key', 'func', '@for:-1']),
    ('loop_update_resource', 'dataflows.processors.update_resource', ['update_resource', 'func', '@for:-1']),
    ('loop_update_schema', 'dataflows.processors.update_schema', ['update_schema', 'func', '@for:-1']),
    ('loop_delete_fields', 'dataflows.processors.delete_fields', ['delete_fields', 'func', '@for:-1']),
    ('loop_select_fields', 'dataflows.processors.select_fields', ['select_fields', 'func', '@for:-1']),
    ('loop_rename_fields', 'dataflows.processors.rename_fields', ['rename_fields', 'func', '@for:-1']),
    ('loop_add_computed_field', 'dataflows.processors.add_computed_field', ['add_computed_field', 'func', '@for:-1']),
    ('loop_unpivot', 'dataflows.processors.unpivot', ['unpivot', 'func', '@for:-1']),
    ('loop_delete_resource', 'dataflows.processors.delete_resource', ['delete_resource', 'func', '@for:-1']),
    # the validator loop; `on_error` is a user callable that may update the row it is given (clear does): its calls are
    # hoisted into `extCall` statements, which write the updated arguments back
    # Flow: the dispatch of one link (the body of `_chain`'s loop) and the folding of checkpoints into the chain
    # dump_to_sql: what the mode means for the table — drop first (rewrite), which keys drive the upsert (update)
    ('sql_rewrite_drop', 'dataflows.processors.dumpers.to_sql', ['SQLDumper', 'process_resource', '@if:0', '@else', '@if:0'],
     ['mode', 'storage']),
    ('sql_update_keys', 'dataflows.processors.dumpers.to_sql', ['SQLDumper', 'process_resource', '@if:0', '@else', '@if:2'],
     ['mode', 'converted_resource', 'schema_descriptor', 'update_keys']),
    # parallelize: one turn of the fetcher's loop (the queues as values)
    ('par_producer_loop', 'dataflows.processors.parallelize', ['producer', '@try:0', '@for:0'],
     ['res', 'q_in', 'q_internal']),
    ('par_work_body', 'dataflows.processors.parallelize', ['work', '@try:0', '@while:0', '@body'],
     ['q_in', 'q_out', 'pid'], {'wb': ['row_func']}),
    ('par_collector_body', 'dataflows.processors.parallelize', ['fork', '@for:0', '@if:0', '@while:0', '@body'],
     ['q_internal']),
    ('par_fetcher_body', 'dataflows.processors.parallelize', ['fetcher', '@while:0', '@body'],
     ['q_out', 'q_internal', 'expected_nones']),
    # concatenate: the source-field -> target-field mapping
    ('concat_mapping_loop', 'dataflows.processors.concatenate', ['concatenate', 'func', '@for:0'], ['fields', 'field_mapping']),
    ('flow_chain_body', 'dataflows.base.flow', ['Flow', '_chain', '@for:0', '@body']),
    ('flow_preprocess', 'dataflows.base.flow', ['Flow', '_preprocess_chain'], ['self.chain']),
    ('checkpoint_handle', 'dataflows.processors.checkpoint', ['checkpoint', 'handle_flow_checkpoint'], ['self.steps']),
    ('checkpoint_preprocess', 'dataflows.processors.checkpoint', ['checkpoint', '_preprocess_chain'],
     ['self.filename', 'self.chain', 'self.checkpoint_path', 'self.checkpoint_name']),
    # sort_rows: the rendering of one row's sort key (numbers through their flipped IEEE bit pattern)
    ('sort_key_func', 'dataflows.processors.sort_rows', ['KeyCalc', '__calculator', 'func'], ['key_spec', 'formatters']),
    ('sort_process', 'dataflows.processors.sort_rows', ['_sorter', 'process'], ['key_calc']),
    # extended JSON: the encoder's dispatch on the type of a value
    ('ejson_default', 'dataflows.helpers.extended_json', ['CommonJSONEncoder', 'default'], ['TIME_F_FORMAT', 'DATETIME_F_FORMAT', 'DATE_F_FORMAT']),
    ('ejson_hook', 'dataflows.helpers.extended_json', ['CommonJSONDecoder', 'object_hook'], ['TIME_P_FORMAT', 'DATETIME_P_FORMAT', 'DATE_P_FORMAT']),
    # the exception funnel of the driver
    ('raise_exception', 'dataflows.base.datastream_processor', ['DataStreamProcessor', 'raise_exception'], ['self.__class__', 'self.position']),
    ('default_process_resource', 'dataflows.base.datastream_processor', ['DataStreamProcessor', 'process_resource']),
    ('default_process_resources', 'dataflows.base.datastream_processor', ['DataStreamProcessor', 'process_resources']),
    ('safe_process', 'dataflows.base.datastream_processor', ['DataStreamProcessor', 'safe_process']),
    ('process_chain_step', 'dataflows.base.datastream_processor', ['DataStreamProcessor', '_process'], ['self.source', 'self.stats']),
    ('loop_schema_validator', 'dataflows.base.schema_validator', ['schema_validator', '@for:-1'], [], {'wb': ['on_error']}),
]
AGG_KEYS = ['sum', 'avg', 'median', 'max', 'min', 'first', 'last', 'count', 'any', 'set', 'array', 'counters']


def lean_int(i):
    return '(.int %d)' % i if i >= 0 else '(.int (%d))' % i


class Tr:
    """one function → Lean text"""

    def __init__(self, wb=()):
        self.notes = []
        self.wb = set(wb)
        self.tmp = 0

    def hoist(self, test):
        """`f(args)` / `not f(args)` with f a write-back callable -> (extCall statement, condition over its result)"""
        neg = isinstance(test, ast.UnaryOp) and isinstance(test.op, ast.Not)
        call = test.operand if neg else test
        if isinstance(call, ast.Call) and isinstance(call.func, ast.Name) and call.func.id in self.wb and not call.keywords \
                and not any(isinstance(a, ast.Starred) for a in call.args):
            self.tmp += 1
            t = '$call%d' % self.tmp
            stmt = '(.extCall %s %s %s)' % (lean_str(t), lean_str(call.func.id), self.args([self.e(a) for a in call.args]))
            cond = '(.var %s)' % lean_str(t)
            return stmt, ('(.not %s)' % cond if neg else cond)
        return None

    # ---- expressions
    def args(self, items):
        out = '.nil'
        for it in reversed(items):
            out = '(.cons %s %s)' % (it, out)
        return out

    def call(self, f, items):
        ctor = BCTOR.get(f)
        if f == '.get' and len(items) == 1:
            ctor = None         # x.get(): a queue's get, not dict.get(key)
        head = '.' + ctor if ctor else '(.ext %s)' % lean_str(f)
        return '(.call %s %s)' % (head, self.args(items))

    def unsup(self, what):
        self.notes.append(what)
        return '(.unsupported %s)' % lean_str(what)

    def name_of(self, node):
        """a variable name for Name / self.attr, else None"""
        if isinstance(node, ast.Name):
            return node.id
        if isinstance(node, ast.Attribute) and isinstance(node.value, ast.Name) and node.value.id == 'self':
            return 'self.' + node.attr
        return None

    def typename(self, node):
        if isinstance(node, ast.Name):
            return node.id
        if isinstance(node, ast.Attribute):
            return node.attr
        return None

    def e(self, n):
        if isinstance(n, ast.Constant):
            v = n.value
            if v is None:
                return '(.const .none)'
            if v is True:
                return '(.const (.bool true))'
            if v is False:
                return '(.const (.bool false))'
            if isinstance(v, int):
                return '(.const %s)' % lean_int(v)
            if isinstance(v, str):
                return '(.const (.str %s))' % lean_str(v)
            return self.unsup('constant %r' % (v,))
        nm = self.name_of(n)
        if nm is not None:
            return '(.var %s)' % lean_str(nm)
        if isinstance(n, ast.Attribute):
            return self.call('attr', [self.e(n.value), '(.const (.str %s))' % lean_str(n.attr)])
        if isinstance(n, ast.BinOp):
            op = BINOPS.get(type(n.op))
            if op is None:
                return self.unsup('operator %s' % type(n.op).__name__)
            return self.call(op, [self.e(n.left), self.e(n.right)])
        if isinstance(n, ast.UnaryOp):
            if isinstance(n.op, ast.Not):
                return '(.not %s)' % self.e(n.operand)
            if isinstance(n.op, ast.USub):
                return self.call('neg', [self.e(n.operand)])
            return self.unsup('unary %s' % type(n.op).__name__)
        if isinstance(n, ast.BoolOp):
            ctor = '.and' if isinstance(n.op, ast.And) else '.or'
            vals = [self.e(v) for v in n.values]
            out = vals[-1]
            for v in reversed(vals[:-1]):
                out = '(%s %s %s)' % (ctor, v, out)
            return out
        if isinstance(n, ast.Compare):
            if len(n.ops) != 1:
                return self.unsup('chained comparison')
            op = CMPOPS.get(type(n.ops[0]))
            return self.call(op, [self.e(n.left), self.e(n.comparators[0])])
        if isinstance(n, ast.IfExp):
            return '(.ifexp %s %s %s)' % (self.e(n.test), self.e(n.body), self.e(n.orelse))
        if isinstance(n, ast.Subscript):
            if isinstance(n.slice, ast.Slice):
                return self.unsup('slice')
            return self.call('getitem', [self.e(n.value), self.e(n.slice)])
        if isinstance(n, ast.Tuple):
            return self.call('mk.tuple', [self.e(x) for x in n.elts])
        if isinstance(n, ast.List):
            return self.call('mk.list', [self.e(x) for x in n.elts])
        if isinstance(n, ast.Set):
            return self.call('mk.set', [self.e(x) for x in n.elts])
        if isinstance(n, ast.Dict):
            if any(k is None for k in n.keys):
                return self.unsup('dict unpacking')
            items = []
            for k, v in zip(n.keys, n.values):
                items += [self.e(k), self.e(v)]
            return self.call('mk.dict', items)
        if isinstance(n, (ast.GeneratorExp, ast.ListComp)):
            return self.comp(n.elt, n.generators, '.list')
        if isinstance(n, ast.Call):
            return self.callexpr(n)
        return self.unsup(type(n).__name__)

    def comp(self, elt, gens, mode):
        """mode .list: nested generators are flattened; .any / .all: `any(e for a in A for b in B)` is
        `any(any(e for b in B) for a in A)` evaluated lazily (and dually for all)"""
        g = gens[0]
        if g.is_async:
            return self.unsup('async comprehension')
        cond = '(.const (.bool true))'
        for c in reversed(g.ifs):
            cond = self.e(c) if cond == '(.const (.bool true))' else '(.and %s %s)' % (self.e(c), cond)
        inner = self.e(elt) if len(gens) == 1 else self.comp(elt, gens[1:], mode)
        if isinstance(g.target, ast.Name):
            out = '(.comp %s %s %s %s %s)' % (mode, inner, lean_str(g.target.id), self.e(g.iter), cond)
        elif isinstance(g.target, ast.Tuple) and len(g.target.elts) == 2 and all(isinstance(t, ast.Name) for t in g.target.elts):
            out = '(.comp2 %s %s %s %s %s %s)' % (mode, inner, lean_str(g.target.elts[0].id), lean_str(g.target.elts[1].id),
                                                  self.e(g.iter), cond)
        else:
            return self.unsup('comprehension target')
        return out if len(gens) == 1 or mode != '.list' else self.call('flatten', [out])

    def callexpr(self, n):
        if any(isinstance(a, ast.Starred) for a in n.args) or any(
                k.arg is None and not (isinstance(k.value, ast.Dict) and all(x is not None for x in k.value.keys)) for k in n.keywords):
            return self.unsup('star arguments')
        args = [self.e(a) for a in n.args]
        # keyword arguments travel as trailing (name, value) pairs; only external callables accept them.  `**{k: v}` with a
        # dict display contributes its pairs (the names are computed)
        kwargs = []
        for k in n.keywords:
            if k.arg is None:
                kwargs += [self.call('mk.tuple', [self.e(kk), self.e(vv)]) for kk, vv in zip(k.value.keys, k.value.values)]
            else:
                kwargs.append(self.call('mk.tuple', ['(.const (.str %s))' % lean_str(k.arg), self.e(k.value)]))
        if kwargs:
            f = n.func
            name = None
            if isinstance(f, ast.Name) and f.id not in BUILTIN_CALLS and f.id != 'isinstance':
                name = f.id
            elif isinstance(f, ast.Attribute) and isinstance(f.value, ast.Name) and f.value.id in ('collections', 'copy'):
                name = f.attr if BCTOR.get(f.attr) is None else None
            elif isinstance(f, ast.Attribute) and isinstance(f.value, ast.Name) and f.value.id in ('exceptions', 'logging', 'datetime', 'decimal', 'isodate'):
                name = '%s.%s' % (f.value.id, f.attr)
            elif isinstance(f, ast.Attribute) and BCTOR.get('.' + f.attr) is None:
                return self.call('.' + f.attr, [self.e(f.value)] + args + kwargs)
            elif isinstance(f, ast.Call):
                return self.call('$apply', [self.e(f)] + args + kwargs)
            if name is None:
                return self.unsup('keyword arguments of a builtin')
            return self.call(name, args + kwargs)
        f = n.func
        if isinstance(f, ast.Name) and f.id in ('any', 'all') and len(n.args) == 1 \
                and isinstance(n.args[0], (ast.GeneratorExp, ast.ListComp)) and isinstance(n.args[0], ast.GeneratorExp):
            return self.comp(n.args[0].elt, n.args[0].generators, '.' + f.id)
        if isinstance(f, ast.Name):
            if f.id == 'isinstance' and len(n.args) == 2:
                ty = n.args[1]
                tys = ty.elts if isinstance(ty, ast.Tuple) else [ty]
                names = [self.typename(t) for t in tys]
                if any(t is None for t in names):
                    return self.unsup('isinstance type')
                subject = self.e(n.args[0])
                out = self.call('isinstance:' + names[-1], [subject])
                for t in reversed(names[:-1]):
                    out = '(.or %s %s)' % (self.call('isinstance:' + t, [subject]), out)
                return out
            return self.call(f.id, args)
        if isinstance(f, ast.Attribute):
            if isinstance(f.value, ast.Name) and f.value.id in MODULES:
                mod = f.value.id
                name = {'collections': f.attr, 'copy': f.attr}.get(mod, '%s.%s' % (mod, f.attr))
                return self.call(name, args)
            if isinstance(f.value, ast.Attribute) and isinstance(f.value.value, ast.Name) and f.value.value.id in MODULES:
                return self.call('%s.%s.%s' % (f.value.value.id, f.value.attr, f.attr), args)
            return self.call('.' + f.attr, [self.e(f.value)] + args)
        if isinstance(f, ast.Call):
            # the result of a call is called: `wrapper(link)(ds)` = apply(wrapper(link), ds)
            return self.call('$apply', [self.e(f)] + args)
        return self.unsup('call of %s' % type(f).__name__)

    # ---- statements
    def seq(self, stmts):
        items = [self.s(x) for x in stmts]
        items = [i for i in items if i != '.skip'] or ['.skip']
        out = items[-1]
        for it in reversed(items[:-1]):
            out = '(.seq %s %s)' % (it, out)
        return out

    def sunsup(self, what):
        self.notes.append(what)
        return '(.unsupported %s)' % lean_str(what)

    def s(self, n):
        if isinstance(n, ast.Pass):
            return '.skip'
        if isinstance(n, ast.Expr):
            v = n.value
            if isinstance(v, ast.Constant) and isinstance(v.value, str):
                return '.skip'       # docstring
            if isinstance(v, ast.Yield):
                return '(.yield %s)' % (self.e(v.value) if v.value is not None else '(.const .none)')
            if isinstance(v, ast.YieldFrom):
                return '(.yieldFrom %s)' % self.e(v.value)
            # x.append(y.pop(k)): the popped value is appended, then the key is gone from y
            if isinstance(v, ast.Call) and isinstance(v.func, ast.Attribute) and v.func.attr == 'append' and self.name_of(v.func.value) is not None \
                    and len(v.args) == 1 and isinstance(v.args[0], ast.Call) and isinstance(v.args[0].func, ast.Attribute) \
                    and v.args[0].func.attr == 'pop' and isinstance(v.args[0].func.value, ast.Name) and len(v.args[0].args) == 1 and not v.args[0].keywords:
                x, y, k = self.name_of(v.func.value), v.args[0].func.value.id, self.e(v.args[0].args[0])
                return '(.seq (.mut %s "append" %s) (.mut %s "delitem" %s))' % (
                    lean_str(x), self.args([self.call('getitem', ['(.var %s)' % lean_str(y), k])]), lean_str(y), self.args([k]))
            # d[k].add(v): the member of d under k is replaced by itself with v added
            if isinstance(v, ast.Call) and isinstance(v.func, ast.Attribute) and v.func.attr in MUTATORS and isinstance(v.func.value, ast.Subscript) \
                    and isinstance(v.func.value.value, ast.Name) and not isinstance(v.func.value.slice, ast.Slice) and not v.keywords:
                return '(.mutAt %s %s %s %s)' % (lean_str(v.func.value.value.id), self.e(v.func.value.slice), lean_str(v.func.attr),
                                                 self.args([self.e(a) for a in v.args]))
            if isinstance(v, ast.Call) and isinstance(v.func, ast.Attribute) and v.func.attr in MUTATORS \
                    and self.name_of(v.func.value) is not None and not v.keywords:
                return '(.mut %s %s %s)' % (lean_str(self.name_of(v.func.value)), lean_str(v.func.attr),
                                            self.args([self.e(a) for a in v.args]))
            if isinstance(v, ast.Call) and isinstance(v.func, ast.Attribute) and v.func.attr in EXT_MUTATORS \
                    and isinstance(v.func.value, ast.Name) and not v.keywords:
                nm = v.func.value.id
                return '(.assign %s %s)' % (lean_str(nm), self.call('.%s!' % v.func.attr, ['(.var %s)' % lean_str(nm)] + [self.e(a) for a in v.args]))
            return '(.expr %s)' % self.e(v)
        if isinstance(n, ast.Assign):
            if len(n.targets) != 1:
                return self.sunsup('multiple assignment targets')
            t = n.targets[0]
            nm = self.name_of(t)
            if nm is not None:
                return '(.assign %s %s)' % (lean_str(nm), self.e(n.value))
            if isinstance(t, ast.Subscript) and self.name_of(t.value) is not None and not isinstance(t.slice, ast.Slice):
                return '(.mut %s "setitem" %s)' % (lean_str(self.name_of(t.value)), self.args([self.e(t.slice), self.e(n.value)]))
            if isinstance(t, ast.Tuple) and all(isinstance(x, ast.Name) for x in t.elts):
                return '(.unpack [%s] %s)' % (', '.join(lean_str(x.id) for x in t.elts), self.e(n.value))
            return self.sunsup('assignment target %s' % type(t).__name__)
        if isinstance(n, ast.AnnAssign):
            if n.value is None:
                return '.skip'
            nm = self.name_of(n.target)
            if nm is None:
                return self.sunsup('annotated assignment target')
            return '(.assign %s %s)' % (lean_str(nm), self.e(n.value))
        if isinstance(n, ast.AugAssign):
            nm = self.name_of(n.target)
            op = BINOPS.get(type(n.op))
            if nm is None or op is None:
                return self.sunsup('augmented assignment')
            return '(.assign %s %s)' % (lean_str(nm), self.call(op, ['(.var %s)' % lean_str(nm), self.e(n.value)]))
        if isinstance(n, ast.If):
            h = self.hoist(n.test)
            if h:
                return '(.seq %s (.ite %s %s %s))' % (h[0], h[1], self.seq(n.body), self.seq(n.orelse) if n.orelse else '.skip')
            return '(.ite %s %s %s)' % (self.e(n.test), self.seq(n.body), self.seq(n.orelse) if n.orelse else '.skip')
        if isinstance(n, ast.Try) and not n.orelse and not n.finalbody and n.handlers and not (
                len(n.handlers) == 1 and len(n.body) == 1 and isinstance(n.body[0], (ast.Assign, ast.AugAssign, ast.Expr))):
            # general form: handlers run in the state before the try — only when no handler reads a name the body assigns
            assigned = set()
            for b in n.body:
                for x in ast.walk(b):
                    if isinstance(x, ast.Name) and isinstance(x.ctx, ast.Store):
                        assigned.add(x.id)
                    if isinstance(x, ast.Call) and isinstance(x.func, ast.Attribute) and x.func.attr in MUTATORS \
                            and isinstance(x.func.value, ast.Name):
                        assigned.add(x.func.value.id)
            hs = '.nil'
            for hd in reversed(n.handlers):
                exc = self.typename(hd.type) if hd.type is not None else None
                if exc is None:
                    return self.sunsup('except clause')
                read = {x.id for b in hd.body for x in ast.walk(b) if isinstance(x, ast.Name) and isinstance(x.ctx, ast.Load)}
                if read & assigned:
                    return self.sunsup('handler reads %s, which the try body assigns' % sorted(read & assigned))
                hs = '(.cons %s %s %s %s)' % (lean_str(exc), lean_str(hd.name or '$exc'), self.seq(hd.body), hs)
            return '(.tryCatch %s %s)' % (self.seq(n.body), hs)
        if isinstance(n, ast.Try):
            if len(n.handlers) != 1 or n.orelse or n.finalbody or len(n.body) != 1 \
                    or not isinstance(n.body[0], (ast.Assign, ast.AugAssign, ast.Expr)):
                return self.sunsup('try statement outside the atomic form')
            hd = n.handlers[0]
            exc = self.typename(hd.type) if hd.type is not None else None
            if exc is None:
                return self.sunsup('except clause')
            return '(.tryExcept %s %s %s %s)' % (self.s(n.body[0]), lean_str(exc), lean_str(hd.name or '$exc'), self.seq(hd.body))
        if isinstance(n, ast.Return):
            return '(.ret %s)' % (self.e(n.value) if n.value is not None else '(.const .none)')
        if isinstance(n, ast.For):
            if n.orelse:
                return self.sunsup('for-else')
            if isinstance(n.target, ast.Name):
                return '(.forIn %s %s %s)' % (lean_str(n.target.id), self.e(n.iter), self.seq(n.body))
            if isinstance(n.target, ast.Tuple) and len(n.target.elts) == 2 and all(isinstance(t, ast.Name) for t in n.target.elts):
                return '(.forIn2 %s %s %s %s)' % (lean_str(n.target.elts[0].id), lean_str(n.target.elts[1].id),
                                                  self.e(n.iter), self.seq(n.body))
            return self.sunsup('for target')
        if isinstance(n, ast.Continue):
            return '.continue_'
        if isinstance(n, ast.Break):
            return '.break_'
        if isinstance(n, ast.Assert):
            return '(.assert_ %s)' % self.e(n.test)
        if isinstance(n, ast.Raise):
            exc = n.exc
            if isinstance(exc, ast.Name) and exc.id[:1].islower():
                # a local holding an exception object (`raise cause`, `raise error from cause`)
                return '(.raiseE %s)' % self.e(exc)
            if isinstance(exc, ast.Call):
                exc = exc.func
            tag = self.typename(exc) if exc is not None else None
            return '(.raise_ %s)' % lean_str(tag or 'raise')
        return self.sunsup(type(n).__name__)

    def fn(self, node, extra=()):
        if isinstance(node, ast.stmt) and not isinstance(node, ast.FunctionDef):
            # a statement taken out of its function: its free variables are the caller's business
            return '{ params := [%s], body := %s, gen := true }' % (', '.join(lean_str(p) for p in extra), self.s(node))
        if isinstance(node, ast.Lambda):
            a = node.args
            body = '(.ret %s)' % self.e(node.body)
            gen = False
        else:
            a = node.args
            body = self.seq(node.body)
            gen = any(isinstance(x, (ast.Yield, ast.YieldFrom)) for x in walk_own(node))
        if a.vararg or a.kwarg or a.kwonlyargs:
            body = self.sunsup('star parameters')
        params = [x.arg for x in list(a.posonlyargs) + list(a.args)] + list(extra)
        return '{ params := [%s], body := %s, gen := %s }' % (', '.join(lean_str(p) for p in params), body,
                                                              'true' if gen else 'false')


def walk_own(fn):
    """nodes of a function body, not descending into nested functions / lambdas / classes"""
    stack = list(fn.body)
    while stack:
        n = stack.pop()
        yield n
        for c in ast.iter_child_nodes(n):
            if not isinstance(c, (ast.FunctionDef, ast.Lambda, ast.ClassDef, ast.AsyncFunctionDef)):
                stack.append(c)


def module_tree(modname):
    try:
        mod = importlib.import_module(modname)
        return ast.parse(inspect.getsource(mod))
    except Exception as e:
        raise LiveError('cannot parse %s: %r' % (modname, e))


def locate(tree, path):
    node = tree
    for name in path:
        if name == '@body':
            # the statements of a compound statement's body, as one statement
            node = ast.If(test=ast.Constant(True), body=list(node.body), orelse=[])
            continue
        if name == '@else':
            # the `else` block of an `if` statement, as one statement
            if not isinstance(node, ast.If) or not node.orelse:
                return None
            node = ast.If(test=ast.Constant(True), body=list(node.orelse), orelse=[])
            continue
        if name.startswith('@if:'):
            ifs = [st for st in getattr(node, 'body', []) if isinstance(st, ast.If)]
            k = int(name[4:])
            if not ifs or not (-len(ifs) <= k < len(ifs)):
                return None
            node = ifs[k]
            continue
        if name.startswith('@try:'):
            tries = [st for st in getattr(node, 'body', []) if isinstance(st, ast.Try)]
            k = int(name[5:])
            if not tries or not (-len(tries) <= k < len(tries)):
                return None
            node = tries[k]
            continue
        if name.startswith('@while:'):
            whiles = [st for st in getattr(node, 'body', []) if isinstance(st, ast.While)]
            k = int(name[7:])
            if not whiles or not (-len(whiles) <= k < len(whiles)):
                return None
            node = whiles[k]
            continue
        if name.startswith('@for:'):
            fors = [st for st in getattr(node, 'body', []) if isinstance(st, ast.For)]
            k = int(name[5:])
            if not fors or not (-len(fors) <= k < len(fors)):
                return None
            node = fors[k]
            continue
        found = None
        for child in ast.iter_child_nodes(node) if not isinstance(node, ast.Module) else node.body:
            if isinstance(child, (ast.FunctionDef, ast.ClassDef)) and child.name == name:
                found = child
                break
        if found is None:
            # nested definitions may sit below compound statements
            for child in ast.walk(node):
                if isinstance(child, (ast.FunctionDef, ast.ClassDef)) and child.name == name and child is not node:
                    found = child
                    break
        if found is None:
            return None
        node = found
    return node


def aggregator_nodes(tree):
    """{key: (func node, finaliser node)} of `AGGREGATORS = {...}`; a Name is resolved to the module-level def"""
    res = {}
    for stmt in tree.body:
        if isinstance(stmt, ast.Assign) and len(stmt.targets) == 1 and isinstance(stmt.targets[0], ast.Name) \
                and stmt.targets[0].id == 'AGGREGATORS' and isinstance(stmt.value, ast.Dict):
            for k, v in zip(stmt.value.keys, stmt.value.values):
                if isinstance(k, ast.Constant) and isinstance(v, ast.Call) and len(v.args) >= 2:
                    res[k.value] = (v.args[0], v.args[1])
    return res


def translate_all():
    """[(lean name, Lean text of the Fn, notes)]"""
    out = []
    trees = {}

    def tree_of(m):
        if m not in trees:
            trees[m] = module_tree(m)
        return trees[m]

    def one(name, node, extra=(), opts=None):
        tr = Tr(wb=(opts or {}).get('wb', ()))
        if node is None:
            text = '{ params := [], body := (.unsupported "function not found in the working tree"), gen := false }'
            out.append((name, text, ['not found']))
            return
        out.append((name, tr.fn(node, extra), tr.notes))

    for spec in FUNCTIONS:
        name, modname, path = spec[:3]
        one(name, locate(tree_of(modname), path), spec[3] if len(spec) > 3 else (), spec[4] if len(spec) > 4 else None)
    jt = tree_of('dataflows.processors.join')
    aggs = aggregator_nodes(jt)
    for key in AGG_KEYS:
        pair = aggs.get(key)
        for idx, part in enumerate(('func', 'finaliser')):
            node = pair[idx] if pair else None
            if isinstance(node, ast.Name):
                node = locate(jt, [node.id])
            one('agg_%s_%s' % (key, part), node)
    return out


def render():
    L = ['import DfModel.PyLite',
         '/-! GENERATED by harness/py2lean.py from the /repo working tree — do not edit. -/', 'set_option maxRecDepth 4096', 'namespace Df.Live.Py', 'open Df.Py']
    names = []
    for name, text, notes in translate_all():
        for nt in notes:
            L.append('-- %s: outside the subset: %s' % (name, nt.replace('\n', ' ')))
        L.append('def %s : Fn := %s' % (name, text))
        names.append(name)
    L.append('def table : List (String × Fn) := [%s]' % ', '.join('(%s, %s)' % (lean_str(n), n) for n in names))
    L.append('end Df.Live.Py')
    return '\n'.join(L) + '\n'


def regenerate():
    path = os.path.join(LEAN_DIR, 'Generated', 'PyAst.lean')
    text = render()
    old = None
    if os.path.exists(path):
        with open(path) as f:
            old = f.read()
    if old != text:
        with open(path, 'w') as f:
            f.write(text)
    return text


if __name__ == '__main__':
    print(regenerate())
