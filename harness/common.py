"""Shared machinery of the /verif checks: Lean build + audit, model driver, evidence,
findings, replays, decision logic.  Run with /venv/bin/python (dataflows is installed
there in editable mode from /repo, so the working tree is what runs)."""
import contextlib
import fcntl
import hashlib
import json
import os
import random
import re
import shutil
import subprocess
import sys
import tempfile
import time

VERIF = os.path.dirname(os.path.dirname(os.path.abspath(__file__)))
LEAN_DIR = os.path.join(VERIF, 'lean')
DRIVER = os.path.join(LEAN_DIR, '.lake', 'build', 'bin', 'dfdriver')
REPO = os.environ.get('VERIF_REPO', '/repo')
ALLOWED_AXIOMS = {'propext', 'Classical.choice', 'Quot.sound'}
FORBIDDEN = re.compile(r'\b(sorry|admit|native_decide|bv_decide|implemented_by|unsafe)\b|^\s*axiom\s|maxHeartbeats\s+0\b',
                       re.M)

TRUSTED_BASE = [
    "Lean 4.33.0 kernel (leanchecker re-check in the thorough tier)",
    "axioms allowed: propext, Classical.choice, Quot.sound; no native_decide/bv_decide/own axioms (audited by #print axioms on every run)",
    "Lean compiler + C toolchain for the compiled model driver dfdriver (correspondence runs compiled definitions)",
    "harness/live.py (live parameters read from /repo into Generated/Live.lean) and the correspondence harness (generators, canonicalisation, line protocol)",
    "CPython semantics the model abstracts (generators, dict order, ==/hash across bool/int/Decimal); object aliasing is not modelled",
    "third-party libraries entering the model as parameters or small models: re, datapackage, tableschema, tabulator, kvfile, csv, json, tableschema_sql/SQLite, multiprocessing queues",
]


class CheckError(Exception):
    """The check itself could not run (exit 2) — never a violation."""


# ----------------------------------------------------------------------------------
# registry / findings
# ----------------------------------------------------------------------------------

def load_registry():
    with open(os.path.join(VERIF, 'registry.json')) as f:
        return json.load(f)


def load_findings(prop):
    path = os.path.join(VERIF, 'known_findings.json')
    if not os.path.exists(path):
        return []
    with open(path) as f:
        data = json.load(f)
    return [e for e in data.get('findings', []) if e.get('property') == prop]


# ----------------------------------------------------------------------------------
# Lean: live parameters, build, audit
# ----------------------------------------------------------------------------------

@contextlib.contextmanager
def build_lock():
    path = os.path.join(VERIF, '.lock')
    with open(path, 'w') as lock:
        fcntl.flock(lock, fcntl.LOCK_EX)
        try:
            yield
        finally:
            fcntl.flock(lock, fcntl.LOCK_UN)


def run_cmd(cmd, cwd=None, timeout=1800, env=None):
    p = subprocess.run(cmd, cwd=cwd, stdout=subprocess.PIPE, stderr=subprocess.STDOUT,
                       timeout=timeout, env=env, text=True)
    return p.returncode, p.stdout


class LeanStage:
    """Outcome of the proof stage for one property."""

    def __init__(self):
        self.build_ok = False
        self.driver_ok = False
        self.build_log = ''
        self.live_error = None
        self.obligations = []      # [{'name','kind'}]
        self.discharged = []       # names
        self.broken = []           # [{'name','why'}]
        self.forbidden_hits = []
        self.checker_cmd = ''
        self.leanchecker = None

    @property
    def ok(self):
        return self.build_ok and not self.broken and not self.forbidden_hits and self.live_error is None


def grep_forbidden():
    hits = []
    for root, _dirs, files in os.walk(LEAN_DIR):
        if '.lake' in root:
            continue
        for fn in files:
            if not fn.endswith('.lean'):
                continue
            path = os.path.join(root, fn)
            with open(path) as f:
                text = f.read()
            # strip comments: block /- … -/ (nested not needed) and line comments
            text = re.sub(r'/-.*?-/', lambda m: '\n' * m.group(0).count('\n'), text, flags=re.S)
            text = re.sub(r'--.*', '', text)
            for m in FORBIDDEN.finditer(text):
                line = text.count('\n', 0, m.start()) + 1
                hits.append('%s:%d:%s' % (os.path.relpath(path, VERIF), line, m.group(0).strip()))
    return hits


def lean_stage(prop, tier, log):
    """Regenerate live parameters, build everything, audit the property's theorems."""
    from . import live
    st = LeanStage()
    registry = load_registry()
    entry = registry.get(prop, {})
    st.obligations = list(entry.get('theorems', []))
    modules = entry.get('modules', ['DfProps.%s' % prop])
    with build_lock():
        try:
            live.regenerate()
        except live.LiveError as e:
            # a live parameter can no longer be read: a broken obligation, not a check error
            st.live_error = str(e)
        rc, out = run_cmd(['lake', 'build', 'dfdriver'], cwd=LEAN_DIR)
        st.driver_ok = (rc == 0 and os.path.exists(DRIVER))
        DRIVER_STATE['ok'] = st.driver_ok
        if not st.driver_ok:
            st.build_log += out[-4000:]
        targets = ['DfModel', 'Generated'] + modules
        rc, out = run_cmd(['lake', 'build'] + targets, cwd=LEAN_DIR)
        st.build_ok = (rc == 0)
        st.build_log += out[-6000:]
        st.checker_cmd = 'cd lean && lake build %s && lake env lean <audit:#print axioms>' % ' '.join(targets)
        # audit
        names = [t['name'] for t in st.obligations]
        if names:
            # module by module, so that one module that no longer builds only takes its own theorems with it
            axioms, outs, module_logs = {}, [], []
            for m in modules:
                if not st.build_ok:
                    rc_m, out_m = run_cmd(['lake', 'build', m], cwd=LEAN_DIR)
                    if rc_m != 0:
                        module_logs.append(out_m)
                        continue
                audit_src = 'import %s\n' % m + ''.join('#print axioms %s\n' % n for n in names)
                fd, audit_path = tempfile.mkstemp(suffix='.lean', prefix='Audit_%s_' % prop, dir=LEAN_DIR)
                with os.fdopen(fd, 'w') as f:
                    f.write(audit_src)
                try:
                    rc, out = run_cmd(['lake', 'env', 'lean', audit_path], cwd=LEAN_DIR)
                finally:
                    os.unlink(audit_path)
                outs.append(out)
                axioms.update(parse_axioms(out))
            out = st.build_log + '\n'.join(outs)
            failing = failing_theorems(st.build_log + ''.join(module_logs))
            for n in names:
                if n not in axioms:
                    short = n.split('.')[-1]
                    if short in failing:
                        why = 'does not check against the current source: ' + failing[short]
                    elif failing:
                        why = 'not checked: its module no longer builds (failing there: %s)' % ', '.join(sorted(failing)[:4])
                    else:
                        why = 'theorem missing or does not check: ' + first_error(out, n)
                    st.broken.append({'name': n, 'why': why, 'primary': short in failing})
                elif not set(axioms[n]) <= ALLOWED_AXIOMS:
                    st.broken.append({'name': n, 'why': 'depends on axioms %s' % sorted(set(axioms[n]) - ALLOWED_AXIOMS)})
                else:
                    st.discharged.append(n)
        st.forbidden_hits = grep_forbidden()
        if tier == 'thorough' and st.build_ok:
            rc, out = run_cmd(['lake', 'env', 'leanchecker'] + modules, cwd=LEAN_DIR, timeout=3000)
            st.leanchecker = (rc == 0)
            st.checker_cmd += ' && lake env leanchecker %s' % ' '.join(modules)
            if rc != 0:
                st.broken.append({'name': 'leanchecker', 'why': out[-1000:]})
    log('lean: build_ok=%s driver_ok=%s obligations=%d discharged=%d broken=%d live_error=%s' % (
        st.build_ok, st.driver_ok, len(st.obligations), len(st.discharged), len(st.broken), st.live_error))
    return st


def failing_theorems(log):
    """{theorem name: first error line} for the `error: File.lean:LINE:COL: …` lines of a lake log: the declaration that
    encloses each reported position"""
    res = {}
    for m in re.finditer(r'error: (\S+?\.lean):(\d+):\d+: (.*)', log):
        path, line, msg = m.group(1), int(m.group(2)), m.group(3)
        full = path if os.path.isabs(path) else os.path.join(LEAN_DIR, path)
        try:
            with open(full) as f:
                src = f.read().split('\n')
        except OSError:
            continue
        name = None
        for k in range(min(line, len(src)) - 1, -1, -1):
            mm = re.match(r'\s*(?:@\[[^\]]*\]\s*)?(?:private\s+)?(?:theorem|lemma|example|def|instance)\s+([\w.\']+)?', src[k])
            if mm:
                name = mm.group(1) or 'example'
                break
        if name and name not in res:
            res[name] = msg[:200]
    return res


def parse_axioms(out):
    """Parse `#print axioms` output: "'X' depends on axioms: [a, b]" / "'X' does not depend on any axioms"."""
    res = {}
    for m in re.finditer(r"'([^']+)' depends on axioms: \[([^\]]*)\]", out, flags=re.S):
        res[m.group(1)] = [a.strip() for a in m.group(2).replace('\n', ' ').split(',') if a.strip()]
    for m in re.finditer(r"'([^']+)' does not depend on any axioms", out):
        res[m.group(1)] = []
    return res


def first_error(out, name):
    for line in out.splitlines():
        if 'error' in line and (name in line or 'unknown' in line.lower()):
            return line[:300]
    for line in out.splitlines():
        if 'error' in line:
            return line[:300]
    return ''


# ----------------------------------------------------------------------------------
# the model driver (line protocol)
# ----------------------------------------------------------------------------------

DRIVER_STATE = {'ok': True}


class Model:
    def __init__(self):
        self.calls = 0

    def available(self):
        # a driver that no longer builds from the current sources is not used (a stale binary proves nothing)
        return DRIVER_STATE['ok'] and os.path.exists(DRIVER)

    def run(self, ops):
        """ops: list of dict → list of dict (one JSON object per line in, one per line out)."""
        if not ops:
            return []
        if not self.available():
            raise CheckError('model driver not built')
        data = ''.join(json.dumps(op, ensure_ascii=False) + '\n' for op in ops)
        p = subprocess.run([DRIVER], input=data.encode('utf-8'), stdout=subprocess.PIPE,
                           stderr=subprocess.PIPE, timeout=1800)
        if p.returncode != 0:
            raise CheckError('driver exited with %d: %s' % (p.returncode, p.stderr.decode()[-500:]))
        lines = [line for line in p.stdout.decode('utf-8').split('\n') if line.strip()]
        if len(lines) != len(ops):
            raise CheckError('driver returned %d lines for %d ops' % (len(lines), len(ops)))
        self.calls += len(ops)
        out = []
        for op, line in zip(ops, lines):
            r = json.loads(line)
            if 'fail' in r:
                raise CheckError('driver protocol failure on %s: %s' % (json.dumps(op)[:300], r['fail']))
            out.append(r)
        return out


# ----------------------------------------------------------------------------------
# report / decision
# ----------------------------------------------------------------------------------

def stable_hash(obj):
    return hashlib.sha1(json.dumps(obj, sort_keys=True, default=str).encode()).hexdigest()[:16]


class Report:
    def __init__(self, prop, tier, seed):
        self.prop = prop
        self.tier = tier
        self.seed = seed
        self.t0 = time.time()
        self.evaluations = 0
        self.nontrivial = set()
        self.samples = []
        self.histograms = {}
        self.disagreements = []     # correspondence: {'op','case','real','model'}
        self.oracle_failures = []   # {'signature','case','detail'}
        self.corr_ops = {}          # op -> count
        self.notes = []
        self.lines = []
        self.rule = ''
        self.assumptions = []
        self.search_ran = False

    def log(self, msg):
        print('[%s %s] %s' % (self.prop, self.tier, msg), flush=True)

    def case(self, kind, sample=None, key=None, nontrivial=True):
        self.evaluations += 1
        self.hist('kind', kind)
        if nontrivial:
            self.nontrivial.add(stable_hash(key if key is not None else sample))
        if sample is not None and len(self.samples) < 6 and (self.evaluations % 37 == 1 or len(self.samples) < 2):
            self.samples.append({'kind': kind, 'case': trim(sample)})

    def hist(self, name, value):
        h = self.histograms.setdefault(name, {})
        h[str(value)] = h.get(str(value), 0) + 1

    def corr(self, op, case, real, model):
        """record one correspondence comparison; real/model are canonical JSON-able values"""
        self.corr_ops[op] = self.corr_ops.get(op, 0) + 1
        if real != model:
            self.disagreements.append({'op': op, 'case': case, 'real': real, 'model': model})
            return False
        return True

    def fail(self, signature, case, detail):
        self.oracle_failures.append({'signature': signature, 'case': case, 'detail': detail})


def trim(obj, limit=1500):
    s = json.dumps(obj, default=str, ensure_ascii=False)
    if len(s) <= limit:
        return json.loads(s)
    return {'truncated': s[:limit]}


def write_replay(prop, name, payload):
    d = os.path.join(VERIF, 'replays')
    os.makedirs(d, exist_ok=True)
    path = os.path.join(d, '%s-%s.json' % (prop, name))
    with open(path, 'w') as f:
        json.dump(payload, f, indent=1, default=str, ensure_ascii=False)
    return os.path.relpath(path, VERIF)


def finish(report, stage, findings_probe=None, search=None):
    """Decide, print VIOLATION / KNOWN-FINDING lines, write evidence, return exit code."""
    prop = report.prop
    known = [f for f in load_findings(prop) if f.get('status') == 'known']
    known_sigs = {f['signature']: f for f in known}
    violations = []
    # 1. listed findings: re-run their canonical inputs
    if findings_probe is not None:
        for f in known:
            try:
                still = findings_probe(f)
            except Exception as e:  # probe could not run → check error, not a violation
                raise CheckError('probe for %s failed: %r' % (f['signature'], e))
            if still:
                print('KNOWN-FINDING: property=%s %s' % (prop, f['what']), flush=True)
            else:
                report.notes.append('listed finding no longer reproduces: ' + f['signature'])
    # 2. oracle failures on the real code
    new_fail = [o for o in report.oracle_failures if o['signature'] not in known_sigs]
    for o in report.oracle_failures:
        if o['signature'] in known_sigs:
            report.hist('known_finding_hits', o['signature'])
    seen = set()
    for o in new_fail:
        if o['signature'] in seen:
            continue
        seen.add(o['signature'])
        path = write_replay(prop, 'oracle-%s-%s' % (sanitize(o['signature']), report.seed), {
            'property': prop, 'kind': 'oracle-failure-on-real-code', 'seed': report.seed, 'tier': report.tier,
            'signature': o['signature'], 'input': o['case'], 'detail': o['detail'],
            'replay_cmd': './check %s --replay <this file>' % prop})
        violations.append('VIOLATION property=%s replay=%s' % (prop, path))
    # 3. broken proof obligation / correspondence without oracle failure → failing-input search
    broken = []
    if stage is not None:
        if not stage.build_ok:
            broken.append({'what': 'lake build failed', 'detail': stage.build_log[-2000:]})
        if stage.live_error:
            broken.append({'what': 'live parameter unreadable', 'detail': stage.live_error})
        for b in sorted(stage.broken, key=lambda b: not b.get('primary', False)):
            broken.append({'what': 'theorem %s' % b['name'], 'detail': b['why']})
        for h in stage.forbidden_hits:
            broken.append({'what': 'forbidden construct', 'detail': h})
    for d in report.disagreements[:20]:
        broken.append({'what': 'correspondence %s' % d['op'], 'detail': trim(d)})
    if broken and not violations:
        found = None
        if search is not None:
            report.search_ran = True
            try:
                found = search(report.disagreements)
            except CheckError:
                raise
            except Exception as e:
                report.notes.append('failing-input search crashed: %r' % e)
        if found:
            sig = found.get('signature', 'search')
            if sig in known_sigs:
                # the search only rediscovered a listed finding; the broken obligation stands
                found = None
        if found:
            path = write_replay(prop, 'search-%s-%s' % (sanitize(found.get('signature', 'x')), report.seed), {
                'property': prop, 'kind': 'failing-input-found-after-broken-obligation', 'seed': report.seed,
                'broken': broken[:5], 'signature': found.get('signature'), 'input': found.get('case'),
                'detail': found.get('detail')})
            violations.append('VIOLATION property=%s replay=%s' % (prop, path))
        else:
            path = write_replay(prop, 'broken-%s' % report.seed, {
                'property': prop, 'kind': 'broken-proof-obligation-or-correspondence', 'seed': report.seed,
                'no_longer_checks': broken[:20],
                'note': 'no failing input was found on the real code; the property is no longer shown to hold'})
            violations.append('VIOLATION property=%s replay=%s no-failing-input-found' % (prop, path))
    if report.disagreements and os.environ.get('VERIF_DEBUG'):
        with open(os.path.join(VERIF, 'scratch', 'disagreements-%s.json' % prop), 'w') as f:
            json.dump(report.disagreements[:50], f, indent=1, default=str)
    for v in violations:
        print(v, flush=True)
    write_evidence(report, stage, len(violations))
    return 1 if violations else 0


def sanitize(s):
    return re.sub(r'[^A-Za-z0-9_.-]+', '_', str(s))[:60]


def write_evidence(report, stage, nviol):
    obligations = len(stage.obligations) if stage else 0
    discharged = len(stage.discharged) if stage else 0
    cov = {
        'obligations': obligations,
        'discharged': discharged,
        'checker_cmd': stage.checker_cmd if stage else '',
        'trusted_base': TRUSTED_BASE,
        'theorems': [{'name': t['name'], 'kind': t.get('kind', 'full'),
                      'discharged': t['name'] in (stage.discharged if stage else [])}
                     for t in (stage.obligations if stage else [])],
        'broken': stage.broken if stage else [],
        'live_error': stage.live_error if stage else None,
        'leanchecker': stage.leanchecker if stage else None,
        'evaluations': report.evaluations,
        'distinct_nontrivial': len(report.nontrivial),
        'rule': report.rule,
        'samples': report.samples or [{'note': 'no sample recorded'}],
        'correspondence_ops': report.corr_ops,
        'disagreements_checked': len(report.disagreements),
        'oracle_failures': len(report.oracle_failures),
        'failing_input_search_ran': report.search_ran,
        'histograms': report.histograms,
        'notes': report.notes,
    }
    ev = {
        'property_id': report.prop,
        'tier': report.tier,
        'seed': report.seed,
        'level': 'proof',
        'coverage': cov,
        'assumptions': report.assumptions,
        'wall_s': round(time.time() - report.t0, 2),
        'violations': nviol,
    }
    os.makedirs(os.path.join(VERIF, 'evidence'), exist_ok=True)
    with open(os.path.join(VERIF, 'evidence', '%s.json' % report.prop), 'w') as f:
        json.dump(ev, f, indent=1, default=str, ensure_ascii=False)


# ----------------------------------------------------------------------------------
# scratch space
# ----------------------------------------------------------------------------------

@contextlib.contextmanager
def scratch_dir(prop):
    base = os.path.join(VERIF, 'scratch')
    os.makedirs(base, exist_ok=True)
    d = tempfile.mkdtemp(prefix='%s-' % prop, dir=base)
    try:
        yield d
    finally:
        shutil.rmtree(d, ignore_errors=True)


def make_rng(seed, salt=''):
    return random.Random('%s/%s' % (seed, salt))


@contextlib.contextmanager
def quiet():
    """silence prints of the library (printer, checkpoint notices) during oracle runs"""
    devnull = open(os.devnull, 'w')
    old = sys.stdout
    sys.stdout = devnull
    try:
        yield
    finally:
        sys.stdout = old
        devnull.close()
