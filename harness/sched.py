"""Controlled scheduling of the *real* parallelize code.

The module-level names `mp`, `threading` and `queue` of dataflows.processors.parallelize are
replaced (in this harness process only) by scheduler-aware stand-ins: every actor (producer,
worker i, fetcher, collector) is a thread that runs the repository's own function body, and
every queue operation is a scheduling point at which the thread parks until the controller
grants it the next step of the schedule.  Worker "processes" are threads with copied rows.
One actor runs at a time; a scheduled actor whose operation cannot proceed (get on an empty
queue, wrong kind of step) is skipped, exactly as the model skips a disabled step.
"""
import copy
import threading as real_threading
import time

import importlib

import dataflows  # noqa: F401

par = importlib.import_module('dataflows.processors.parallelize')


class Stop(Exception):
    pass


class Controller:
    def __init__(self, n):
        self.n = n
        self.cond = real_threading.Condition()
        self.parked = {}        # actor name -> (kind, ready_fn)
        self.granted = None     # (actor, arg)
        self.running = 0
        self.finished = set()
        self.actors = []
        self.fetch_nones = 0
        self.abort = False

    # ---- called by actor threads
    def point(self, actor, kind, ready):
        """park until the controller grants this actor a step of this kind; returns the grant argument"""
        with self.cond:
            self.parked[actor] = (kind, ready)
            self.running -= 1
            self.cond.notify_all()
            while not (self.granted and self.granted[0] == actor) and not self.abort:
                self.cond.wait(timeout=5)
            if self.abort:
                raise Stop()
            arg = self.granted[1]
            self.granted = None
            del self.parked[actor]
            self.running += 1
            return arg

    def finish(self, actor):
        with self.cond:
            self.finished.add(actor)
            self.running -= 1
            self.cond.notify_all()

    def spawn(self, actor, target, args):
        def body():
            try:
                target(*args)
            except Stop:
                pass
            finally:
                self.finish(actor)
        t = real_threading.Thread(target=body, daemon=True)
        with self.cond:
            self.running += 1
            self.actors.append(actor)
        t.start()
        return t

    # ---- called by the controller
    def quiesce(self, timeout=20):
        with self.cond:
            t0 = time.time()
            while self.running > 0:
                self.cond.wait(timeout=1)
                if time.time() - t0 > timeout:
                    raise RuntimeError('actors did not quiesce: running=%d parked=%s' % (self.running, list(self.parked)))

    def try_step(self, actor, kind, arg):
        """grant one step if the actor is parked at a point of this kind and it is ready"""
        self.quiesce()
        with self.cond:
            st = self.parked.get(actor)
            if st is None or st[0] != kind or not st[1](arg):
                return False
            self.granted = (actor, arg)
            self.cond.notify_all()
        # wait until the grant has been taken and the actor has parked again or finished
        with self.cond:
            while self.granted is not None:
                self.cond.wait(timeout=1)
        self.quiesce()
        return True

    def shutdown(self):
        with self.cond:
            self.abort = True
            self.cond.notify_all()


class QIn:
    def __init__(self, ctl):
        self.ctl = ctl
        self.items = []

    def put(self, x):
        self.ctl.point('prod', 'prod', lambda a: True)
        self.items.append(copy.deepcopy(x))

    def get(self):
        me = real_threading.current_thread().name
        self.ctl.point(me, 'wGet', lambda a: len(self.items) > 0)
        return self.items.pop(0)


class QOut:
    def __init__(self, ctl, n):
        self.ctl = ctl
        self.chan = {}

    def put(self, x):
        me = real_threading.current_thread().name
        self.ctl.point(me, 'wPut', lambda a: True)
        self.chan.setdefault(me, []).append(copy.deepcopy(x))

    def get(self):
        i = self.ctl.point('fetcher', 'fGet', lambda i: len(self.chan.get('worker%d' % i, [])) > 0)
        x = self.chan['worker%d' % i].pop(0)
        if x is None:
            self.ctl.fetch_nones += 1
            if self.ctl.fetch_nones < self.ctl.n:
                # the real fetcher just decrements its counter; the model has a step for that
                self.ctl.point('fetcher', 'fPut', lambda a: True)
        return x


class QInternal:
    def __init__(self, ctl):
        self.ctl = ctl
        self.items = []

    def put(self, x):
        me = real_threading.current_thread().name
        if me == 'producer':
            self.ctl.point('prod', 'prod', lambda a: True)
        else:
            self.ctl.point('fetcher', 'fPut', lambda a: True)
        self.items.append(x)

    def get(self):
        self.ctl.point('coll', 'coll', lambda a: len(self.items) > 0)
        return self.items.pop(0)


class FakeProcess:
    def __init__(self, ctl, idx, target, args):
        self.ctl, self.idx, self.target, self.args = ctl, idx, target, args
        self.t = None

    def start(self):
        def body(*a):
            real_threading.current_thread().name = 'worker%d' % self.idx
            self.target(*a)
        self.t = self.ctl.spawn('worker%d' % self.idx, body, self.args)

    def join(self, timeout=None):
        # the collector thread joins: it must not hold a grant while waiting
        self.t.join(timeout=3)

    def close(self):
        if self.t.is_alive():
            raise ValueError('Cannot close a process while it is still running')

    def kill(self):
        pass


class FakeMP:
    def __init__(self, ctl):
        self.ctl = ctl
        self.queues = 0
        self.procs = 0

    def Queue(self):
        self.queues += 1
        return QIn(self.ctl) if self.queues == 1 else QOut(self.ctl, self.ctl.n)

    def Process(self, target=None, args=()):
        p = FakeProcess(self.ctl, self.procs, target, args)
        self.procs += 1
        return p


class FakeThreading:
    def __init__(self, ctl):
        self.ctl = ctl

    def Thread(self, target=None, args=()):
        ctl = self.ctl
        name = 'producer' if target.__name__ == 'producer' else 'fetcher'

        class T:
            def start(self_inner):
                def body(*a):
                    real_threading.current_thread().name = name
                    target(*a)
                self_inner.t = ctl.spawn('prod' if name == 'producer' else 'fetcher', body, args)

            def join(self_inner, timeout=None):
                self_inner.t.join(timeout=3)
        return T()


class FakeQueueModule:
    def __init__(self, ctl):
        self.ctl = ctl

    def Queue(self):
        return QInternal(self.ctl)


def actor_name(a):
    kind, i = a
    if kind == 'prod':
        return 'prod'
    if kind in ('wGet', 'wPut'):
        return 'worker%d' % i
    if kind in ('fGet', 'fPut'):
        return 'fetcher'
    return 'coll'


def run_controlled(rows, selected, n, schedule, fair_rounds):
    """→ (effective flags for `schedule ++ fair suffix`, delivered values, finished?, full schedule)"""
    ctl = Controller(n)
    saved = (par.mp, par.threading, par.queue)
    par.mp, par.threading, par.queue = FakeMP(ctl), FakeThreading(ctl), FakeQueueModule(ctl)
    delivered = []
    done = [False]

    def row_func(row):
        row['v'] += 1000

    def predicate(row):
        return selected[row['i']]

    def collector():
        real_threading.current_thread().name = 'coll'
        for row in par.fork(iter([{'i': i, 'v': i} for i in rows]), row_func, n, predicate):
            delivered.append(row['v'])
        done[0] = True
    full = list(schedule)
    fair = [['prod', 0]] + [['wGet', i] for i in range(n)] + [['wPut', i] for i in range(n)] + \
           [['fGet', i] for i in range(n)] + [['fPut', 0], ['coll', 0]]
    for _ in range(fair_rounds):
        full += fair
    flags = []
    try:
        ctl.spawn('coll', collector, ())
        ctl.quiesce()
        for a in full:
            if done[0]:
                flags.append(False)
                continue
            ok = ctl.try_step(actor_name(a), a[0], a[1])
            flags.append(bool(ok))
    finally:
        ctl.shutdown()
        par.mp, par.threading, par.queue = saved
    return flags, delivered, done[0], full
