"""`pyeval` correspondence: the real functions of the working tree vs. the PyLite evaluator run on the
syntax translated from the same working tree (Generated/PyAst.lean, compiled into dfdriver).

This validates the translator + evaluator pair (the part of the trusted base the tie theorems rest on):
for every translated function, generated arguments go to the real Python function and, encoded, to the
driver; the canonicalised results must be equal.  Canonical form: ints exact, floats by repr (the model's
symbolic `fdiv(a, b)` is evaluated as Python's `a / b`), sets sorted, errors as a small enum."""
import collections
import copy
import importlib
import re

PROP_GROUPS = {'C18': ['fetcher', 'producer', 'worker', 'collector'], 'C20': ['sql'], 'C16': ['concat', 'concat_map', 'duplicate'], 'C12': ['sortkey'], 'C04': ['driver'], 'C15': ['fields', 'delete_schema', 'select_schema', 'get_type'], 'C01': ['flow'], 'C07': ['flow', 'ejson', 'ejson_hook'], 'C11': ['join'], 'C02': ['join', 'get_type'], 'C10': ['matcher'], 'C14': ['handlers', 'vloop'], 'C17': ['rows'], 'C13': ['load']}


# ---------------------------------------------------------------- encoding
def to_pv(x):
    if x is None:
        return {'t': 'none'}
    if x is True or x is False:
        return {'t': 'bool', 'v': x}
    if isinstance(x, int):
        return {'t': 'int', 'v': str(x)}
    if isinstance(x, str):
        return {'t': 'str', 'v': x}
    if isinstance(x, collections.Counter):
        return {'t': 'counter', 'v': [[to_pv(k), to_pv(v)] for k, v in x.items()]}
    if isinstance(x, dict):
        return {'t': 'dict', 'v': [[to_pv(k), to_pv(v)] for k, v in x.items()]}
    if isinstance(x, list):
        return {'t': 'list', 'v': [to_pv(e) for e in x]}
    if isinstance(x, tuple):
        return {'t': 'tuple', 'v': [to_pv(e) for e in x]}
    if isinstance(x, (set, frozenset)):
        return {'t': 'set', 'v': [to_pv(e) for e in sorted(x, key=repr)]}
    if isinstance(x, re.Pattern):
        return {'t': 're', 'v': x.pattern}
    raise TypeError('cannot encode %r' % (x,))


def canon_pv(j):
    """canonical comparable form of an encoded PV"""
    t = j['t']
    if t == 'none':
        return None
    if t == 'bool':
        return ['bool', j['v']]
    if t == 'int':
        return ['int', j['v']]
    if t == 'str':
        return ['str', j['v']]
    if t == 'fdiv':
        a, b = canon_pv(j['a']), canon_pv(j['b'])
        if a and b and a[0] == 'int' and b[0] == 'int':
            return ['float', repr(int(a[1]) / int(b[1]))]
        return ['fdiv', a, b]
    if t in ('list', 'tuple'):
        return [t] + [canon_pv(e) for e in j['v']]
    if t == 'set':
        return ['set'] + sorted((canon_pv(e) for e in j['v']), key=repr)
    if t in ('dict', 'counter'):
        return [t] + [[canon_pv(k), canon_pv(v)] for k, v in j['v']]
    if t == 're':
        return ['re', j['v']]
    if t == 'o':
        return ['o', j['k'], j['v']]
    raise ValueError(t)


def canon_py(x):
    if isinstance(x, float):
        return ['float', repr(x)]
    if isinstance(x, (list, tuple)) and not isinstance(x, str):
        return ['list' if isinstance(x, list) else 'tuple'] + [canon_py(e) for e in x]
    if isinstance(x, (set, frozenset)):
        return ['set'] + sorted((canon_py(e) for e in x), key=repr)
    if isinstance(x, collections.Counter):
        return ['counter'] + [[canon_py(k), canon_py(v)] for k, v in x.items()]
    if isinstance(x, dict):
        return ['dict'] + [[canon_py(k), canon_py(v)] for k, v in x.items()]
    return canon_pv(to_pv(x))


ERRS = {KeyError: 'lookup', IndexError: 'lookup', TypeError: 'typeError', AssertionError: 'assertion',
        ZeroDivisionError: 'runtime', AttributeError: 'runtime'}
MODEL_ERRS = {'keyError': 'lookup', 'typeError': 'typeError', 'assertion': 'assertion', 'runtime': 'runtime',
              'user': 'user'}


def real_call(f, *args):
    try:
        return {'ok': f(*args)}
    except Exception as e:  # noqa
        for cls, k in ERRS.items():
            if isinstance(e, cls):
                return {'err': k}
        return {'err': 'user'}


def sort_list(c):
    return [c[0]] + sorted(c[1:], key=repr) if isinstance(c, list) and c and c[0] == 'list' else c


# the order in which a Python set is enumerated is unspecified: `list(<set>)` is compared as a sorted list
post_model = {'agg_set_finaliser': sort_list,
              'concat_mapping_loop': lambda c: ['list'] + sorted((['tuple', kv[0], kv[1]] for kv in c[1:]), key=repr) if isinstance(c, list) and c and c[0] == 'dict' else c,
              'duplicate_traverse': lambda c: ['list'] + [['tuple'] + [[kv[1] for kv in d[1:] if kv[0] == ['str', k]][0] for k in ('name', 'path')] for d in c[1:]] if isinstance(c, list) and c and c[0] == 'list' else c,
              'select_schema_loop': lambda c: ['list'] + [[kv[1] for kv in f[1:] if kv[0] == ['str', 'name']][0] for f in c[1:]] if isinstance(c, list) and c and c[0] == 'list' else c,
              'delete_schema_loop': lambda c: ['list'] + [[kv[1] for kv in f[1:] if kv[0] == ['str', 'name']][0] for f in c[1:]] if isinstance(c, list) and c and c[0] == 'list' else c,
              'ejson_default': lambda c: [c[0], [c[1][0], ['list'] + sorted(c[1][1][1:], key=repr)]] if isinstance(c, list) and c and c[0] == 'dict' and len(c) > 1 and c[1][0] == ['str', 'type{set}'] else c}


class Batch:
    def __init__(self, ctx):
        self.ctx = ctx
        self.ops = []
        self.meta = []

    def add(self, fn, args, real, mode='value', ext=None, vars=None, post=None, case=None):
        op = {'op': 'pyeval', 'fn': fn, 'args': [to_pv(a) for a in args], 'mode': mode}
        if ext:
            op['ext'] = ext
        if vars:
            op['vars'] = vars
        self.ops.append(op)
        if 'ok' in real:       # canonicalise now: the real functions update their states in place
            real = {'ok': post(real['ok']) if post else canon_py(real['ok'])}
        self.meta.append((fn, real, case if case is not None else op['args']))

    def add_op(self, op, fn, real, post=None, case=None):
        self.ops.append(op)
        if 'ok' in real:
            real = {'ok': post(real['ok']) if post else canon_py(real['ok'])}
        self.meta.append((fn, real, case))

    def flush(self):
        rep = self.ctx.report
        outs = self.ctx.model.run(self.ops)
        for (fn, real, case), op, out in zip(self.meta, self.ops, outs):
            if 'ok' in out:
                m = out['ok']
                if op['mode'] == 'env':
                    model = {'ok': [[n, canon_pv(v)] for n, v in sorted(m, key=lambda e: e[0])]}
                elif op['mode'] == 'vars':
                    model = {'ok': [canon_pv(v) for v in m]}
                else:
                    model = {'ok': canon_pv(m)}
            elif op.get('want_tag') and out.get('err') == 'user':
                model = {'err': 'user:' + out.get('tag', '?')}
            else:
                model = {'err': MODEL_ERRS.get(out.get('err'), out.get('err'))}
            if post_model.get(fn) and 'ok' in model:
                model = {'ok': post_model[fn](model['ok'])}
            rep.corr('pyeval:%s' % fn, {'fn': fn, 'args': case}, real, model)
            rep.case('pyeval:%s' % fn, sample={'fn': fn, 'args': case}, key=[fn, case])
        self.ops, self.meta = [], []


# ---------------------------------------------------------------- generators per group
def vals_pool(rng, kind):
    if kind == 'int':
        return [rng.choice([-3, -1, 0, 1, 2, 2, 5, 7, 10 ** 20, -10 ** 18]) for _ in range(rng.randint(0, 7))]
    if kind == 'str':
        return [rng.choice(['a', 'b', 'ab', 'B', '', 'é', 'a']) for _ in range(rng.randint(0, 7))]
    return [rng.choice([1, 'a', 0, 'b', 2]) for _ in range(rng.randint(0, 5))]       # ill-typed mixes: errors must agree


def run_join(ctx, b, n):
    J = importlib.import_module('dataflows.processors.join')
    rng = ctx.rng('pycorr-join')
    for name, f in (('median', J.median), ('identity', J.identity)):
        for _ in range(n // 4):
            vs = vals_pool(rng, 'int')
            arg = rng.choice([None, vs]) if name == 'median' and not vs else vs
            if name == 'identity':
                arg = rng.choice([None, 3, 'x', vs])
            b.add(name, [arg], real_call(f, arg))
    for _ in range(n // 4):
        curr = rng.choice([None, collections.Counter(vals_pool(rng, 'str')), dict(collections.Counter(vals_pool(rng, 'str')))])
        new = rng.choice([None, 'a', 'zz', ['a', 'b', 'a'], ''])
        import copy
        b.add('update_counter', [curr, new], real_call(J.update_counter, copy.deepcopy(curr), new))
    for key, agg in J.AGGREGATORS.items():
        for _ in range(n // 6):
            kind = rng.choice(['int', 'str'] if key not in ('sum', 'avg', 'median') else ['int']) if rng.random() < 0.9 else 'mixed'
            if key in ('counters',):
                kind = 'str'
            vs = vals_pool(rng, kind)
            state = None
            for v in vs:
                import copy
                st_before = copy.deepcopy(state)
                r = real_call(agg.func, state, v)
                b.add('agg_%s_func' % key, [st_before, v], r)
                if 'ok' not in r:
                    break
                state = r['ok']
            else:
                import copy
                b.add('agg_%s_finaliser' % key, [copy.deepcopy(state)], real_call(agg.finaliser, state),
                      post=(lambda x: sort_list(canon_py(x))) if key == 'set' else None)
    b.flush()


def run_matcher(ctx, b, n):
    M = importlib.import_module('dataflows.helpers.resource_matcher')
    rng = ctx.rng('pycorr-matcher')
    pool = ['a', 'ab', 'a.b', 'res_1', 'r(1)', 'b|a', 'x+', 'abc']
    for _ in range(n):
        names = rng.sample(pool, rng.randint(1, 4))
        dp = {'resources': [{'name': nm} for nm in names]}
        sel = rng.choice([None, rng.choice(pool), 'a.*', '.+b', 'a|ab', rng.randint(-5, 4), rng.sample(pool, 2)])

        def construct(sel=sel, dp=dp):
            m = M.ResourceMatcher(sel, dp)
            return m
        r = real_call(construct)
        post = lambda m: sorted([[k, canon_py(v)] for k, v in (('self.resources', m.resources), ('self.re', getattr(m, 're', None))) if not (k == 'self.re' and not hasattr(m, 're'))])
        b.add('matcher_init', [None, sel, dp], r, mode='env', post=post, case=[sel, names])
        if 'ok' in r:
            m = r['ok']
            for name in rng.sample(pool, 3):
                ext = []
                if isinstance(m.resources, re.Pattern):
                    res = m.resources.fullmatch(name)
                    ext = [['.fullmatch', [to_pv(m.resources), to_pv(name)], to_pv(None) if res is None else {'t': 'o', 'k': 'match', 'v': name}]]
                b.add('matcher_match', [None, name, m.resources, getattr(m, 're', None)], real_call(m.match, name), ext=ext,
                      case=[sel, names, name])
    b.flush()


def run_handlers(ctx, b, n):
    V = importlib.import_module('dataflows.base.schema_validator')
    rng = ctx.rng('pycorr-handlers')
    for _ in range(n):
        row = {k: rng.choice([1, 'x', None]) for k in rng.sample(['a', 'b', 'c'], rng.randint(1, 3))}
        fname = rng.choice(['a', 'b', 'c', 'zz'])
        field = rng.choice([None, {'name': fname}])

        class F:
            name = fname
        for name, f, extra in (('handler_ignore', V.ignore, []), ('handler_drop', V.drop, []), ('handler_raise', V.raise_exception, [])):
            b.add(name, ['res', row, 3, None], real_call(f, 'res', dict(row), 3, None), case=[row])
        r2 = dict(row)
        r = real_call(V.clear, 'res', r2, 3, None, F() if field is not None else None)
        if 'ok' in r:
            r = {'ok': [r['ok'], r2]}
        b.add('handler_clear', ['res', row, 3, None, field], r, mode='vars', vars=['row'],
              post=lambda x: [canon_py(x[0]), canon_py(x[1])], case=[row, field])
    b.flush()


class FakeRows:
    def __init__(self, rows, pk):
        self._rows = rows

        class R:
            descriptor = {'schema': {'fields': [], **({'primaryKey': pk} if pk is not None else {})}}
        self.res = R()

    def __iter__(self):
        return iter(self._rows)


def run_rows(ctx, b, n):
    FR = importlib.import_module('dataflows.processors.filter_rows')
    DD = importlib.import_module('dataflows.processors.deduplicate')
    UP = importlib.import_module('dataflows.processors.unpivot')
    rng = ctx.rng('pycorr-rows')
    keys = ['k', 'v', 'w']

    def mkrows():
        return [{k: rng.choice([1, 2, 'a', None, True]) for k in keys} for _ in range(rng.randint(0, 6))]
    for _ in range(n):
        rows = mkrows()
        eq = [{rng.choice(keys + ['zz'] if rng.random() < 0.1 else keys): rng.choice([1, 2, 'a', None])} for _ in range(rng.randint(0, 2))]
        ne = [{rng.choice(keys): rng.choice([1, 'a', None])} for _ in range(rng.randint(0, 2))]
        cond = FR.old_style_conditions(eq, ne)
        ext = []
        for row in rows:
            r = real_call(cond, row)
            b.add('filter_conditions', [row, eq, ne], r, case=[row, eq, ne])
            if 'ok' in r:
                ext.append(['condition', [to_pv(row)], to_pv(r['ok'])])
        if len(ext) == len(rows):
            b.add('filter_process', [rows, None], real_call(lambda: list(FR.process_resource(rows, cond))), ext=ext, case=[rows, eq, ne])
        # deduper
        pk = rng.choice([None, [], ['k'], ['k', 'v'], ['zz'] if rng.random() < 0.2 else ['w']])
        obj = {'res': {'descriptor': {'schema': {'fields': [], **({'primaryKey': pk} if pk is not None else {})}}}, '__iter__': rows}
        b.add('deduper', [obj], real_call(lambda: list(DD.deduper(FakeRows(rows, pk)))), case=[rows, pk])
        # unpivot_rows
        unp = [{'name': rng.choice(keys), 'keys': rng.choice([{'year': rng.choice([2000, 'x'])}, {'year': 1, 'q': 'z'}, {'q': 'z'}, {}])}
               for _ in range(rng.randint(0, 3))]
        keep = rng.sample(keys, rng.randint(0, 2))
        ev = {'name': rng.choice(['value', 'k'])}
        b.add('unpivot_rows', [rows, unp, keep, ev], real_call(lambda: list(UP.unpivot_rows(rows, unp, keep, ev))), case=[rows, unp, keep, ev])
    b.flush()


def run_vloop(ctx, b, n):
    """the validator loop (`for i, row in enumerate(iterator): ...` of schema_validator): the real generator against the
    translated loop, the outcomes of Field.cast_value and of the handler supplied as tables (a handler that updates the
    row reports the new row through the write-back convention)"""
    import copy
    import tableschema
    V = importlib.import_module('dataflows.base.schema_validator')
    rng = ctx.rng('pycorr-vloop')
    EXC = {'t': 'o', 'k': 'exception', 'v': 'CastError'}
    for _ in range(n):
        names = rng.sample(['a', 'b', 'c'], rng.randint(1, 3))
        types = {nm: rng.choice(['integer', 'string', 'boolean']) for nm in names}
        desc = {'name': 'res', 'schema': {'fields': [{'name': nm, 'type': types[nm]} for nm in names]}}
        checked = rng.sample(names, rng.randint(1, len(names))) if rng.random() < 0.3 else None
        rows = [{nm: rng.choice([1, 0, 'x', '7', None, 'true', True]) for nm in names if rng.random() < 0.9}
                for _ in range(rng.randint(0, 5))]
        policy = rng.choice(['ignore', 'drop', 'clear', 'raise', 'custom-odd', 'custom-field'])
        log = []

        def custom_odd(res_name, row, i, e):
            return i % 2 == 1

        def custom_field(res_name, row, i, e, field):
            return field.name != 'a'
        base = {'ignore': V.ignore, 'drop': V.drop, 'clear': V.clear, 'raise': V.raise_exception, 'custom-odd': custom_odd,
                'custom-field': custom_field}[policy]
        five = policy in ('clear', 'custom-field')

        def recording(res_name, row, i, e, field):
            before = copy.deepcopy(row)
            try:
                ret = base(res_name, row, i, e, field) if five else base(res_name, row, i, e)
            except Exception:  # noqa
                log.append((res_name, before, i, field.name, None, None))
                raise
            log.append((res_name, before, i, field.name, ret, copy.deepcopy(row)))
            return ret
        real = real_call(lambda: list(V.schema_validator(copy.deepcopy(desc), iter(copy.deepcopy(rows)), field_names=checked,
                                                          on_error=recording)))
        ext = []
        seen = set()
        for nm in names:
            f = tableschema.Field({'name': nm, 'type': types[nm]})
            # every value the column can hold while the loop runs: the raw ones (absent = None) — a cast result is never cast again
            for v in [r.get(nm) for r in rows] + [None]:
                key = (nm, repr(v))
                if key in seen:
                    continue
                seen.add(key)
                try:
                    out = to_pv(f.cast_value(v))
                except tableschema.exceptions.CastError:
                    out = {'raise': 'CastError'}
                ext.append(['.cast_value', [to_pv({'name': nm}), to_pv(v)], out])
        for res_name, before, i, fname, ret, after in log:
            args = [to_pv(res_name), to_pv(before), to_pv(i), EXC, to_pv({'name': fname})]
            if ret is None and after is None:
                ext.append(['on_error', args, {'raise': 'ValidationError'}])
            else:
                ups = [to_pv(res_name), to_pv(after), to_pv(i), EXC, to_pv({'name': fname})]
                ext.append(['on_error', args, {'t': 'tuple', 'v': [to_pv('__wb__'), to_pv(ret), {'t': 'list', 'v': ups}]}])
        fields = [{'name': nm} for nm in names if checked is None or nm in checked]
        op = {'op': 'pyeval', 'fn': 'loop_schema_validator', 'mode': 'value', 'args': [], 'ext': ext,
              'env': [['iterator', to_pv(rows)], ['schema_fields', to_pv(fields)], ['resource', to_pv({'name': 'res'})]]}
        b.add_op(op, 'loop_schema_validator', real, case=[policy, types, checked, rows])
    b.flush()


def run_load(ctx, b, n):
    """`load.limiter` over finite producers and producers that fail when asked for one row too many"""
    L = importlib.import_module('dataflows.processors.load')
    rng = ctx.rng('pycorr-load')

    class Boom(Exception):
        pass

    class FakeSelf:
        pass
    for _ in range(n):
        rows = [{'a': i} for i in range(rng.randint(0, 6))]
        limit = rng.choice([-2, 0, 1, 2, 3, len(rows), len(rows) + 1, 9])
        failing = rng.random() < 0.6

        def producer(rows=rows, failing=failing):
            for r in rows:
                yield r
            if failing:
                raise Boom()
        me = FakeSelf()
        me.limit_rows = limit
        real = real_call(lambda: list(L.load.limiter(me, producer())))
        it = {'__iter__': rows, '__raise_after__': 'Boom'} if failing else rows
        b.add('load_limiter', [None, it, limit], real, case=[len(rows), limit, failing])
    # stripper: text cells with surrounding blanks of several kinds, non-text cells, empty cells first / later
    import copy
    cells = ['x', ' x', 'x ', '\tx\n', ' a b ', '', None, 3, '\xa0x', 'x\u3000', '\x0bx', ' ', 'é ', True, '\r\nx']
    for _ in range(n):
        rows = [{k: rng.choice(cells) for k in ('a', 'b', 'c')} for _ in range(rng.randint(0, 4))]
        b.add('load_stripper', [None, rows], real_call(lambda: list(L.load.stripper(None, iter(copy.deepcopy(rows))))), case=rows)
    b.flush()


def run_delete_schema(ctx, b, n):
    """the schema loop of delete_fields: the real step on a one-resource package against the translated loop"""
    import re as _re
    from dataflows import Flow
    import dataflows as DF
    from . import canon
    from .common import quiet
    rng = ctx.rng('pycorr-delete-schema')
    pool = ['a', 'ab', 'b', 'a.b', 'id', 'id_x', 'x']
    for _ in range(n):
        names = rng.sample(pool, rng.randint(1, 5))
        pats = [rng.choice(['a', 'a.*', 'id.*', '.*b', 'x|a', 'zz', 'a\\.b', 'b']) for _ in range(rng.randint(1, 3))]
        desc = canon.make_descriptor([{'name': 'r', 'fields': [(nm, 'string') for nm in names]}])
        try:
            with quiet():
                dp = Flow(canon.pkg_source(desc, [[]]), DF.delete_fields(list(pats))).datastream().dp
            real = {'ok': ['list'] + [['str', f['name']] for f in dp.descriptor['resources'][0]['schema']['fields']]}
        except Exception as e:  # noqa
            real = {'err': 'user'}
        pobjs = [{'pattern': '^{}$'.format(p)} for p in pats]
        ext = []
        for po in pobjs:
            c = _re.compile(po['pattern'])
            for nm in names:
                ext.append(['.match', [to_pv(po), to_pv(nm)], opq('match', nm) if c.match(nm) else to_pv(None)])
        op = {'op': 'pyeval', 'fn': 'delete_schema_loop', 'mode': 'value', 'args': [], 'ext': ext, 'want': 'new_fields',
              'env': [['new_fields', to_pv([])], ['matched', {'t': 'set', 'v': []}], ['field_res', to_pv(pobjs)],
                      ['schema_fields', to_pv([{'name': nm, 'type': 'string'} for nm in names])]]}
        b.add_op(op, 'delete_schema_loop', real, post=lambda v: v, case=[names, pats])
    b.flush()


def run_select_schema(ctx, b, n):
    """the schema loops of select_fields: the real step on a one-resource package against the translated loops"""
    import re as _re
    from dataflows import Flow
    import dataflows as DF
    from . import canon
    from .common import quiet
    rng = ctx.rng('pycorr-select-schema')
    pool = ['a', 'ab', 'b', 'a.b', 'id', 'id_x', 'x']
    for _ in range(n):
        names = rng.sample(pool, rng.randint(1, 5))
        pats = [rng.choice(['a', 'a.*', 'id.*', '.*b', 'x|a', 'zz', 'a.b', 'b', 'id', '.*']) for _ in range(rng.randint(1, 4))]
        regex = rng.random() < 0.7
        desc = canon.make_descriptor([{'name': 'r', 'fields': [(nm, 'string') for nm in names]}])
        try:
            with quiet():
                dp = Flow(canon.pkg_source(desc, [[]]), DF.select_fields(list(pats), regex=regex)).datastream().dp
            real = {'ok': ['list'] + [['str', f['name']] for f in dp.descriptor['resources'][0]['schema']['fields']]}
        except AssertionError:
            real = {'ok': ['list']}          # nothing selected: the assertion behind the loops fires
        except Exception as e:  # noqa
            real = {'ok': ['list']} if isinstance(getattr(e, 'cause', None), AssertionError) else {'err': 'user'}
        ext = []
        for p_ in set(pats):
            inner = p_ if regex else _re.escape(p_)
            if not regex:
                ext.append(['re.escape', [to_pv(p_)], to_pv(inner)])
            pat = '^{}$'.format(inner)
            ext.append(['.format', [to_pv('^{}$'), to_pv(inner)], to_pv(pat)])
            c = _re.compile(pat)
            for nm in names:
                ext.append(['.match', [{'t': 're', 'v': pat}, to_pv(nm)], opq('match', nm) if c.match(nm) else to_pv(None)])
        op = {'op': 'pyeval', 'fn': 'select_schema_loop', 'mode': 'value', 'args': [], 'ext': ext, 'want': 'new_fields',
              'env': [['new_fields', to_pv([])], ['dp_fields', to_pv({nm: {'name': nm, 'type': 'string'} for nm in names})],
                      ['configuration', {'t': 'dict', 'v': [[to_pv('r'), {'t': 'set', 'v': []}]]}], ['resource', to_pv({'name': 'r'})],
                      ['regex', to_pv(regex)], ['fields', to_pv(pats)]]}
        b.add_op(op, 'select_schema_loop', real, post=lambda v: v, case=[names, pats, regex])
    b.flush()


def run_get_type(ctx, b, n):
    """add_computed_field.get_type: the real function against the translated one (all eight operations)"""
    AC = importlib.import_module('dataflows.processors.add_computed_field')
    rng = ctx.rng('pycorr-get-type')
    for _ in range(n):
        names = rng.sample(['a', 'b', 'c', 'd', 'e'], rng.randint(0, 5))
        fields = [{'name': nm, 'type': rng.choice(['integer', 'number', 'string', 'any', 'date', 'integer'])} for nm in names]
        srcs = rng.sample(['a', 'b', 'c', 'd', 'e', 'zz'], rng.randint(0, 3))
        op = rng.choice(sorted(AC.AGGREGATORS))
        b.add('computed_get_type', [fields, srcs, op], real_call(AC.get_type, fields, srcs, op), case=[fields, srcs, op])
    b.flush()


def run_sql(ctx, b, n):
    """dump_to_sql's reading of `mode`: the real SQLDumper.process_resource on a recording storage (is the table dropped
    first? which update keys reach storage.write?) against the two translated `if` statements"""
    TS = importlib.import_module('dataflows.processors.dumpers.to_sql')
    rng = ctx.rng('pycorr-sql')

    class Dialect:
        name = 'sqlite'

    class Engine:
        dialect = Dialect()

    class Res:
        pass

    for _ in range(n):
        mode = rng.choice(['rewrite', 'append', 'update', 'update', None])
        exists = rng.random() < 0.5
        uk = rng.choice([None, None, ['a'], ['a', 'b'], []])
        pk = rng.choice([None, ['id'], 'id', []])
        conv = {'resource-name': 'r'}
        if mode is not None:
            conv['mode'] = mode
        if uk is not None:
            conv['update_keys'] = uk
        schema = {'fields': [{'name': 'id', 'type': 'integer'}]}
        if pk is not None:
            schema['primaryKey'] = pk
        calls = []

        class FakeStorage:
            def __init__(self, engine, prefix=None):
                self.buckets = [''] if exists else []

            def delete(self, bucket):
                calls.append(('delete', bucket))
                self.buckets = []

            def create(self, bucket, sch, indexes_fields=None):
                calls.append(('create', bucket))
                self.buckets = ['']

            def describe(self, bucket, sch):
                calls.append(('describe', bucket))

            def write(self, bucket, rows, **kw):
                calls.append(('write', kw.get('update_keys')))
                return iter(())

        saved = TS.Storage
        TS.Storage = FakeStorage
        try:
            d = TS.SQLDumper({'t': dict(conv)}, engine=Engine())
            rw = Res()
            rw.res = Res()
            rw.res.name = 'r'
            rw.res.descriptor = {'schema': schema}
            d.process_resource(rw)
        finally:
            TS.Storage = saved
        writes = [c[1] for c in calls if c[0] == 'write']
        if len(writes) != 1:
            ctx.report.note('pycorr-sql: %d writes' % len(writes))
            continue
        eff = conv.get('mode', 'rewrite')
        storage_pv = to_pv({'buckets': [''] if exists else []})
        dropped = any(c[0] == 'delete' for c in calls)
        b.add('sql_rewrite_drop', [eff, {'buckets': [''] if exists else []}], {'err': 'user'} if dropped else {'ok': []},
              ext=[['.delete', [storage_pv, to_pv('')], {'raise': 'dropped'}]], case=[eff, exists])
        op = {'op': 'pyeval', 'fn': 'sql_update_keys', 'mode': 'value', 'args': [], 'want': 'update_keys',
              'env': [['mode', to_pv(eff)], ['converted_resource', to_pv(dict(conv, **{'table-name': 't'}))],
                      ['schema_descriptor', to_pv(schema)], ['update_keys', to_pv(None)]]}
        b.add_op(op, 'sql_update_keys', {'ok': writes[0]}, case=[eff, uk, pk])
    b.flush()


def run_concat_map(ctx, b, n):
    """concatenate's field mapping: the mapping the real step applies (read off one probe row per candidate source name) or
    its refusal, against the translated mapping loop"""
    from dataflows import Flow
    import dataflows as DF
    from . import canon
    from .common import quiet
    rng = ctx.rng('pycorr-concat-map')
    pool = ['a', 'b', 'c', 't', 'u']
    for _ in range(n):
        fields = {'__anchor__': None}
        for t in rng.sample(['t', 'u', 'w', 'a'], rng.randint(1, 3)):
            fields[t] = rng.choice([None, [], rng.sample(pool, rng.randint(1, 3))])
        if rng.random() < 0.5:
            fields = dict(reversed(list(fields.items())))
        desc = canon.make_descriptor([{'name': 'r', 'fields': [(nm, 'string') for nm in pool + ['w', '__anchor__']]}])
        probes = [{nm: 'x', '__anchor__': 'y'} for nm in pool + ['w']]
        try:
            with quiet():
                ds = Flow(canon.pkg_source(desc, [probes]), DF.concatenate(copy.deepcopy(fields))).datastream()
                out = [list(r) for r in ds.res_iter][0]
            mapping = {'__anchor__': '__anchor__'}
            for probe, row in zip(probes, out):
                src = [k for k in probe if k != '__anchor__'][0]
                hit = [k for k, v in row.items() if v == 'x']
                if hit:
                    mapping[src] = hit[0]
            real = {'ok': sorted(mapping.items())}
        except Exception as e:  # noqa
            cause = getattr(e, 'cause', e)
            if not isinstance(cause, RuntimeError):
                raise
            real = {'err': 'user'}
        op = {'op': 'pyeval', 'fn': 'concat_mapping_loop', 'mode': 'value', 'args': [], 'want': 'field_mapping',
              'env': [['fields', to_pv(fields)], ['field_mapping', to_pv({})]]}
        b.add_op(op, 'concat_mapping_loop', real, post=lambda v: ['list'] + [['tuple', canon_py(k), canon_py(t)] for k, t in v],
                 case=[{k: v for k, v in fields.items()}])
    b.flush()


def run_fetcher(ctx, b, n):
    """one turn of parallelize's fetcher loop: the real `fetcher` run on scripted queues (the internal queue recorded at
    every `get`), each turn against the translated loop body"""
    PZ = importlib.import_module('dataflows.processors.parallelize')
    rng = ctx.rng('pycorr-fetcher')
    for _ in range(max(2, n // 6)):
        workers = rng.randint(1, 4)
        items = [rng.randint(0, 9) for _ in range(rng.randint(0, 6))] + [None] * workers
        rng.shuffle(items)
        turns = []

        class QInt:
            def __init__(self):
                self.items = []

            def put(self, v):
                self.items.append(v)

        qint = QInt()

        class QOut:
            def __init__(self):
                self.i = 0

            def get(self):
                turns.append(list(qint.items))
                it = items[self.i]
                self.i += 1
                return it

        PZ.fetcher(QOut(), qint, workers)
        finals = turns[1:] + [list(qint.items)]
        nones = 0
        for k, before in enumerate(turns):
            item = items[k]
            exp_before = workers - nones
            if item is None:
                nones += 1
            ext = [['.get', [to_pv('q_out')], to_pv(item)], ['.put!', [to_pv(before), to_pv(item)], to_pv(before + [item])]]
            if item is not None:
                ext.append(['.put!', [to_pv(before), to_pv(None)], to_pv(before + [None])])
            env = [['q_out', to_pv('q_out')], ['q_internal', to_pv(before)], ['expected_nones', to_pv(exp_before)]]
            for want, real in (('q_internal', finals[k]), ('expected_nones', workers - nones)):
                op = {'op': 'pyeval', 'fn': 'par_fetcher_body', 'mode': 'value', 'args': [], 'want': want, 'env': env, 'ext': ext}
                b.add_op(op, 'par_fetcher_body', {'ok': real}, case=[item, exp_before, len(before), want])
    b.flush()


def run_producer(ctx, b, n):
    """parallelize's producer loop: the real `producer` on list-backed queues against the translated loop"""
    PZ = importlib.import_module('dataflows.processors.parallelize')
    rng = ctx.rng('pycorr-producer')

    class Q:
        def __init__(self):
            self.items = []

        def put(self, v):
            self.items.append(v)

    for _ in range(max(2, n // 3)):
        rows = [rng.randint(0, 9) for _ in range(rng.randint(0, 7))]
        pick = rng.choice([lambda r: r % 2 == 0, lambda r: r > 4, lambda r: True, lambda r: False])
        workers = rng.randint(1, 3)
        qin, qint, errors = Q(), Q(), []
        PZ.producer(iter(rows), qin, qint, workers, pick, errors)
        real_in = qin.items[:len(qin.items) - workers]          # the end markers for the workers follow the rows
        if errors or qin.items[len(real_in):] != [None] * workers:
            ctx.report.disagreements.append({'op': 'pyeval:producer', 'case': [rows, workers], 'real': repr((errors, qin.items))[:200], 'model': None})
            continue
        ext, a, c = [], [], []
        for r in rows:
            ext.append(['predicate', [to_pv(r)], to_pv(bool(pick(r)))])
            tgt = a if pick(r) else c
            ext.append(['.put!', [to_pv(list(tgt)), to_pv(r)], to_pv(tgt + [r])])
            tgt.append(r)
        env = [['res', to_pv(rows)], ['q_in', to_pv([])], ['q_internal', to_pv([])]]
        for want, real in (('q_in', real_in), ('q_internal', qint.items)):
            op = {'op': 'pyeval', 'fn': 'par_producer_loop', 'mode': 'value', 'args': [], 'want': want, 'env': env, 'ext': ext}
            b.add_op(op, 'par_producer_loop', {'ok': real}, case=[rows, want])
    b.flush()


def run_worker(ctx, b, n):
    """one turn of parallelize's worker loop: the real `work` run in-process on scripted queues (the output queue recorded at
    every `get`), each turn against the translated loop body; the row function raises on some rows"""
    PZ = importlib.import_module('dataflows.processors.parallelize')
    from .common import quiet
    rng = ctx.rng('pycorr-worker')
    for _ in range(max(2, n // 6)):
        items = [rng.randint(0, 9) for _ in range(rng.randint(0, 6))] + [None] + [rng.randint(0, 9) for _ in range(rng.randint(0, 2))]
        bad = set(rng.sample(range(10), rng.randint(0, 4)))
        turns = []

        class QOut:
            def __init__(self):
                self.items = []

            def put(self, v):
                self.items.append(v)

        qout = QOut()

        class QIn:
            def __init__(self):
                self.i = 0

            def get(self, *a, **k):
                turns.append(list(qout.items))
                it = items[self.i]
                self.i += 1
                return it

        def row_func(r):
            if r in bad:
                raise ValueError('bad row %r' % r)

        with quiet():
            PZ.work(QIn(), qout, row_func)
        if qout.items[-1:] != [None]:
            ctx.report.disagreements.append({'op': 'pyeval:worker', 'case': [items], 'real': repr(qout.items)[:200], 'model': 'no end marker'})
            continue
        finals = turns[1:] + [qout.items[:-1]]            # the worker's own end marker is put after the loop
        for k, before in enumerate(turns):
            item = items[k]
            exc = opq('exception', 'Exception')
            ext = [['.get', [to_pv('q_in')], to_pv(item)], ['.put!', [to_pv(before), to_pv(item)], to_pv(before + [item])],
                   ['row_func', [to_pv(item)], {'raise': 'Exception'} if item in bad else to_pv(None)],
                   ['.format', [to_pv('FAILED TO RUN row_func {}\n'), exc], to_pv('FAILED')], ['print', [to_pv(1), to_pv('FAILED')], to_pv(None)]]
            env = [['q_in', to_pv('q_in')], ['q_out', to_pv(before)], ['pid', to_pv(1)]]
            op = {'op': 'pyeval', 'fn': 'par_work_body', 'mode': 'value', 'args': [], 'want': 'q_out', 'env': env, 'ext': ext}
            b.add_op(op, 'par_work_body', {'ok': finals[k]}, case=[item, item in bad, len(before)])
    b.flush()


def run_collector(ctx, b, n):
    """one turn of the collector loop in parallelize.fork: the real `fork` generator with the module's queue / thread / process
    machinery replaced by a scripted internal queue, each turn against the translated loop body"""
    PZ = importlib.import_module('dataflows.processors.parallelize')
    rng = ctx.rng('pycorr-collector')

    class NoThread:
        def __init__(self, *a, **k):
            pass

        def start(self):
            pass

        def join(self, *a, **k):
            pass

    for _ in range(max(2, n // 6)):
        items = [rng.randint(0, 9) for _ in range(rng.randint(0, 6))] + [None] + [rng.randint(0, 9) for _ in range(rng.randint(0, 2))]
        gets = []

        class Scripted:
            def __init__(self, *a, **k):
                self.i = 0

            def get(self, *a, **k):
                it = items[self.i]
                self.i += 1
                gets.append(it)
                return it

            def put(self, v):
                pass

        class FakeQueueMod:
            Queue = Scripted

        class FakeThreading:
            Thread = NoThread

        class FakeMp:
            Queue = Scripted
            Process = NoThread

        saved = (PZ.queue, PZ.threading, PZ.mp, PZ.init_mp, PZ.fini_mp)
        PZ.queue, PZ.threading, PZ.mp = FakeQueueMod, FakeThreading, FakeMp
        PZ.init_mp = lambda *a, **k: ([], NoThread())
        PZ.fini_mp = lambda *a, **k: None
        try:
            real_out = list(PZ.fork(iter([100]), lambda r: r, 2, None))
        finally:
            PZ.queue, PZ.threading, PZ.mp, PZ.init_mp, PZ.fini_mp = saved
        for k, item in enumerate(gets):
            want = real_out[k:k + 1] if item is not None else (real_out[k:] if k < len(real_out) else [])
            b.add('par_collector_body', ['q'], {'ok': want}, ext=[['.get', [to_pv('q')], to_pv(item)]], case=[item, k])
    b.flush()


def run_duplicate(ctx, b, n):
    """duplicate's descriptor generator: the real step's resulting resource list against the translated generator"""
    from dataflows import Flow
    import dataflows as DF
    from . import canon
    from .common import quiet
    rng = ctx.rng('pycorr-duplicate')
    for _ in range(n):
        names = rng.sample(['a', 'b', 'c', 'a_copy'], rng.randint(1, 4))
        src = rng.choice(names + ['zz'])
        tn, tp = rng.choice(['copy', 'x']), rng.choice(['copy.csv', 'data/x.csv'])
        to_end = rng.random() < 0.5
        desc = canon.make_descriptor([{'name': nm, 'fields': [('v', 'string')]} for nm in names])
        try:
            with quiet():
                dp = Flow(canon.pkg_source(desc, [[] for _ in names]),
                          DF.duplicate(source=src, target_name=tn, target_path=tp, duplicate_to_end=to_end)).datastream().dp
            real = {'ok': ['list'] + [['tuple', ['str', r['name']], ['str', r['path']]] for r in dp.descriptor['resources']]}
        except Exception:  # noqa
            continue        # duplicating a resource that is not there: not this generator's business
        ress = [{'name': r['name'], 'path': r['path'], 'other': {'schema': 1}} for r in desc['resources']]
        b.add('duplicate_traverse', [ress, src, tn, tp, to_end], real, post=lambda v: v, case=[names, src, to_end])
    b.flush()


def run_fields(ctx, b, n):
    """the row functions of delete_fields / select_fields / rename_fields"""
    import copy
    DL = importlib.import_module('dataflows.processors.delete_fields')
    SL = importlib.import_module('dataflows.processors.select_fields')
    RN = importlib.import_module('dataflows.processors.rename_fields')
    rng = ctx.rng('pycorr-fields')
    pool = ['a', 'b', 'c', '\xe9', 'a b', 'A']

    class Res:
        def __init__(self, rows, name):
            self._rows = rows

            class R:
                descriptor = {'name': name}
            self.res = R()

        def __iter__(self):
            return iter(self._rows)
    for _ in range(n):
        rows = [{k: rng.choice([1, 'x', None, True, '']) for k in rng.sample(pool, rng.randint(0, len(pool)))} for _ in range(rng.randint(0, 5))]
        names = rng.sample(pool + ['zz'], rng.randint(0, 4))
        b.add('delete_process', [rows, names], real_call(lambda: list(DL.process_resource(copy.deepcopy(rows), list(names)))), case=[rows, names])
        rname = rng.choice(['r1', 'a.b'])
        conf = {rname: set(names), 'other': {'q'}} if rng.random() < 0.9 else {'other': {'q'}}
        obj = {'res': {'descriptor': {'name': rname}}, '__iter__': rows}
        b.add('select_process', [obj, conf], real_call(lambda: list(SL.process_resource(Res(copy.deepcopy(rows), rname), conf))), case=[rows, sorted(names), rname in conf])
        mp = {k: rng.choice(pool + ['new', 'zz']) for k in rng.sample(pool, rng.randint(0, 3))}
        b.add('rename_process', [rows, mp], real_call(lambda: list(RN.process_resource(copy.deepcopy(rows), mp))), case=[rows, mp])
    b.flush()


def run_ejson(ctx, b, n):
    """`CommonJSONEncoder.default`: the real method on one value of every kind against the translated dispatch, the type tests
    and leaf conversions of that value as tables"""
    import datetime
    import decimal
    import isodate
    EJ = importlib.import_module('dataflows.helpers.extended_json')
    rng = ctx.rng('pycorr-ejson')
    enc = EJ.CommonJSONEncoder()
    fmts = [EJ.TIME_F_FORMAT, EJ.DATETIME_F_FORMAT, EJ.DATE_F_FORMAT]

    def cj(x):
        if isinstance(x, float):
            return ['o', 'float', repr(x)]
        if isinstance(x, tuple):
            return ['tuple'] + [cj(e) for e in x]
        if isinstance(x, list):
            return ['list'] + [cj(e) for e in x]
        if isinstance(x, dict):
            return ['dict'] + [[cj(k), cj(v)] for k, v in x.items()]
        return canon_py(x)
    tzs = [None, datetime.timezone.utc, datetime.timezone(datetime.timedelta(hours=-5, minutes=-30), 'X'),
           datetime.timezone(datetime.timedelta(seconds=3600))]
    for i in range(n):
        kind = ['decimal', 'time', 'datetime', 'date', 'timedelta', 'duration', 'set', 'other', 'other-int'][i % 9]
        obj = {'decimal': lambda: decimal.Decimal(rng.choice(['1.50', '-0', '1E+3', 'NaN'])),
               'time': lambda: datetime.time(rng.randint(0, 23), rng.randint(0, 59), rng.randint(0, 59)),
               'datetime': lambda: datetime.datetime(rng.randint(1, 9999), rng.randint(1, 12), rng.randint(1, 28), rng.randint(0, 23), 5, 6,
                                                     tzinfo=rng.choice(tzs)),
               'date': lambda: datetime.date(rng.randint(1, 9999), rng.randint(1, 12), rng.randint(1, 28)),
               'timedelta': lambda: datetime.timedelta(days=rng.randint(-3, 3), seconds=rng.randint(0, 86399)),
               'duration': lambda: isodate.Duration(years=rng.randint(0, 3), months=rng.randint(0, 11), days=rng.randint(0, 40)),
               'set': lambda: set(rng.sample(range(10), rng.randint(0, 4))),
               'other': lambda: object(), 'other-int': lambda: complex(1, 2)}[kind]()
        try:
            real = {'ok': cj(enc.default(obj))}
        except TypeError:
            real = {'err': 'user:TypeError'}
        O = to_pv(obj) if kind == 'set' else opq('object', kind)
        ext = [['isinstance:' + nm, [O], to_pv(isinstance(obj, cls))] for nm, cls in (
            ('Decimal', decimal.Decimal), ('time', datetime.time), ('datetime', datetime.datetime), ('date', datetime.date),
            ('Duration', isodate.Duration), ('timedelta', datetime.timedelta), ('set', set))]
        ext.append(['str', [O], to_pv(str(obj))])
        if hasattr(obj, 'strftime'):
            for f in fmts:
                ext.append(['.strftime', [O, to_pv(f)], to_pv(obj.strftime(f))])
        if isinstance(obj, datetime.datetime):
            off = obj.utcoffset()
            ext.append(['.utcoffset', [O], to_pv(None) if off is None else opq('timedelta', repr(off))])
            if off is not None:
                ext.append(['.total_seconds', [opq('timedelta', repr(off))], opq('float', repr(off.total_seconds()))])
            ext.append(['.tzname', [O], to_pv(obj.tzname())])
        if isinstance(obj, (isodate.Duration, datetime.timedelta)):
            ext.append(['isodate.duration_isoformat', [O], to_pv(isodate.duration_isoformat(obj))])
        ext.append(['super', [], opq('super', '')])
        ext.append(['.default', [opq('super', ''), O], {'raise': 'TypeError'}])
        post = (lambda c: [c[0], [c[1][0], ['list'] + sorted(c[1][1][1:], key=repr)]] if c[0] == 'dict' and c[1][0] == ['str', 'type{set}'] else c)
        if 'ok' in real:
            real = {'ok': post(real['ok'])}
        b.add_op({'op': 'pyeval', 'fn': 'ejson_default', 'mode': 'value', 'want_tag': True, 'ext': ext,
                  'args': [opq('self', ''), O] + [to_pv(f) for f in fmts]}, 'ejson_default', real, post=lambda v: v, case=[kind, repr(obj)[:60]])
    b.flush()


def run_sortkey(ctx, b, n):
    """`KeyCalc(...)(row)` and the keying generator of `_sorter`: the real functions against the translated ones; the bit array
    operations (performed for real on a `bitstring.BitArray`) and `str.format` as tables"""
    from bitstring import BitArray
    SR = importlib.import_module('dataflows.processors.sort_rows')
    rng = ctx.rng('pycorr-sortkey')
    RANGE = opq('range', '1:64')

    def bits_pv(ba):
        return to_pv({'__sign__': bool(ba[0]), '__mag__': int(ba[1:].bin, 2), 'hex': ba.hex})
    ints = [0, 1, -1, 2, -2, 7, 255, -256, 10 ** 6, -(10 ** 6), 2 ** 53, -(2 ** 53) + 1, 3, -3]
    for _ in range(n):
        names = rng.sample(['a', 'b', 'c', 'd'], rng.randint(1, 3))
        row = {k: (rng.choice(ints) if rng.random() < 0.6 else rng.choice(['x', 'ab', '', 'a b', '\xe9'])) for k in ['a', 'b', 'c', 'd'] if rng.random() < 0.9}
        form = rng.choice(['list', 'list', 'format', 'format-spec'])
        if form == 'list':
            spec, formatters = list(names), None
        elif form == 'format':
            spec = ''.join('{%s}' % k for k in names)
        else:
            spec = '-'.join('{%s%s}' % (k, rng.choice(['', ':>6', '!s'])) for k in names)
        if form != 'list':
            formatters = SR.FIELDS_RE.findall(spec)
        kc = SR.KeyCalc(spec)
        real = real_call(kc, dict(row))
        ext = [['range', [to_pv(1), to_pv(64)], RANGE]]
        seen = set()
        for k in names:
            v = row.get(k)
            if isinstance(v, int) and not isinstance(v, bool):
                ba = BitArray(float=v, length=64)
                p0 = bits_pv(ba)
                ba.invert(0)
                p1 = bits_pv(ba)
                if v < 0:
                    ba.invert(range(1, 64))
                if v not in seen:
                    seen.add(v)
                    ext.append(['BitArray', [{'t': 'tuple', 'v': [to_pv('float'), to_pv(v)]}, {'t': 'tuple', 'v': [to_pv('length'), to_pv(64)]}], p0])
                    ext.append(['.invert!', [p0, to_pv(0)], p1])
                    if v < 0:
                        ext.append(['.invert!', [p1, RANGE], bits_pv(ba)])
                    ext.append(['str', [to_pv(ba.hex)], to_pv(ba.hex)])
                for f in (formatters or []):
                    for val in (ba.hex, v):
                        try:
                            ext.append(['.format', [to_pv(f), {'t': 'tuple', 'v': [to_pv(k), to_pv(val)]}], to_pv(f.format(**{k: val}))])
                        except Exception:  # noqa
                            pass
            if v is not None:
                ext.append(['isinstance:float', [to_pv(v)], to_pv(False)])
                ext.append(['isinstance:Decimal', [to_pv(v)], to_pv(False)])
                if isinstance(v, str):
                    ext.append(['str', [to_pv(v)], to_pv(v)])
                    for f in (formatters or []):
                        try:
                            ext.append(['.format', [to_pv(f), {'t': 'tuple', 'v': [to_pv(k), to_pv(v)]}], to_pv(f.format(**{k: v}))])
                        except Exception:  # noqa
                            pass
        key_spec = names if form == 'list' else [SR.KEY_RE.findall(f[1:])[0] for f in formatters]
        b.add('sort_key_func', [row, key_spec, formatters], real, ext=ext, case=[row, spec])
        # the keying generator: key + separator + 8 hex digits of the row number
        rows = [{'a': i} for i in range(rng.randint(0, 4))]

        def fake_calc(r):
            return 'k%d' % r['a']
        captured = []

        class FakeKV:
            def insert(self, it, batch_size=None):
                captured.extend(list(it))

            def items(self, reverse=False):
                return iter(captured)

            def close(self):
                pass
        real_kv = SR.KVFile
        SR.KVFile = FakeKV
        try:
            list(SR._sorter(iter([dict(r) for r in rows]), fake_calc, False, 1000))
        finally:
            SR.KVFile = real_kv
        ext = [['key_calc', [to_pv(r)], to_pv(fake_calc(r))] for r in rows]
        ext += [['.format', [to_pv('\x01{:08x}'), to_pv(i)], to_pv('\x01{:08x}'.format(i))] for i in range(len(rows))]
        expected = [tuple(t) for t in captured]
        b.add('sort_process', [rows, None], {'ok': expected}, ext=ext, case=[len(rows)])
    b.flush()


def run_ejson_hook(ctx, b, n):
    """`CommonJSONDecoder.object_hook`: the real hook on objects with one tag (payload that parses / does not), several tags,
    no tag, against the translated hook; every leaf parser call (performed for real) as a table"""
    import datetime
    import decimal
    import isodate
    EJ = importlib.import_module('dataflows.helpers.extended_json')
    rng = ctx.rng('pycorr-ejson-hook')
    TPF, DTPF, DPF = EJ.TIME_P_FORMAT, EJ.DATETIME_P_FORMAT, EJ.DATE_P_FORMAT

    def val(x):
        return opq('val', repr(x))

    def attempt(f):
        try:
            return ('ok', f())
        except decimal.InvalidOperation:
            return ('raise', 'InvalidOperation')
        except ValueError:
            return ('raise', 'ValueError')
        except TypeError:
            return ('raise', 'TypeError')
    payloads = {
        'type{decimal}': ['1.50', 'abc', '-0', ''],
        'type{time}': ['10:20:30', '25:00:00', 'x'],
        'type{date}': ['2020-02-29', '2021-02-29', '20200101'],
        'type{duration}': ['P1DT2H', 'P1Y2M', 'nonsense'],
        'type{set}': [[1, 2, 2], [], ['a']],
        'type{datetime}': [['2020-01-02T03:04:05', None, None], ['2020-01-02T03:04:05', 3600, 'X'], ['2020-01-02T03:04:05', -19800.0, 'UTC-05:30'],
                           ['bad', None, None], ['2020-01-02T03:04:05', None], 'abc', ['2020-13-02T03:04:05', 0, 'UTC']],
    }
    for i in range(n):
        tags = rng.sample(sorted(payloads), 1 if i % 4 else rng.choice([0, 2, 3]))
        obj = {t: rng.choice(payloads[t]) for t in tags}
        if rng.random() < 0.3:
            obj['other'] = 1
        try:
            r = EJ.CommonJSONDecoder.object_hook(dict(obj))
            if isinstance(r, dict):
                real = {'ok': canon_py(r)}
            elif isinstance(r, (set, frozenset)):
                real = {'ok': canon_py(r)}
            else:
                real = {'ok': ['o', 'val', repr(r)]}
        except TypeError:
            real = {'err': 'typeError'}
        except Exception as e:  # noqa
            real = {'err': 'user:' + type(e).__name__}
        ext = []

        def add(name, args, outcome, wrap=val):
            ext.append([name, args, wrap(outcome[1]) if outcome[0] == 'ok' else {'raise': outcome[1]}])
        if 'type{decimal}' in obj:
            add('decimal.Decimal', [to_pv(obj['type{decimal}'])], attempt(lambda: decimal.Decimal(obj['type{decimal}'])))
        for t, fmt, part in (('type{time}', TPF, 'time'), ('type{date}', DPF, 'date')):
            if t in obj:
                o = attempt(lambda: datetime.datetime.strptime(obj[t], fmt))
                add('datetime.datetime.strptime', [to_pv(obj[t]), to_pv(fmt)], o, wrap=lambda x: opq('parsed', repr(x)))
                if o[0] == 'ok':
                    ext.append(['.' + part, [opq('parsed', repr(o[1]))], val(getattr(o[1], part)())])
        if 'type{duration}' in obj:
            add('isodate.parse_duration', [to_pv(obj['type{duration}'])], attempt(lambda: isodate.parse_duration(obj['type{duration}'])))
        p = obj.get('type{datetime}')
        if isinstance(p, (list, str)) and len(p) == 3:
            iso, ofs, nm = p
            o = attempt(lambda: datetime.datetime.strptime(iso, DTPF))
            add('datetime.datetime.strptime', [to_pv(iso), to_pv(DTPF)], o, wrap=lambda x: opq('parsed', repr(x)))
            if o[0] == 'ok' and nm is not None:
                ofs_pv = to_pv(ofs) if isinstance(ofs, int) else opq('float', repr(ofs))
                td = attempt(lambda: datetime.timedelta(seconds=ofs))
                add('datetime.timedelta', [{'t': 'tuple', 'v': [to_pv('seconds'), ofs_pv]}], td, wrap=lambda x: opq('td', repr(x)))
                ext.append(['.date', [opq('parsed', repr(o[1]))], opq('d', repr(o[1].date()))])
                ext.append(['.time', [opq('parsed', repr(o[1]))], opq('t', repr(o[1].time()))])
                if td[0] == 'ok':
                    tz = attempt(lambda: datetime.timezone(td[1], nm))
                    add('datetime.timezone', [opq('td', repr(td[1])), to_pv(nm)], tz, wrap=lambda x: opq('tz', repr(x)))
                    if tz[0] == 'ok':
                        ext.append(['datetime.datetime.combine', [opq('d', repr(o[1].date())), opq('t', repr(o[1].time())), opq('tz', repr(tz[1]))],
                                    val(datetime.datetime.combine(o[1].date(), o[1].time(), tz[1]))])
            elif o[0] == 'ok':
                # the parsed value itself is returned
                ext[-1][2] = val(o[1])

        def pv_obj(x):
            if isinstance(x, float):
                return opq('float', repr(x))
            if isinstance(x, list):
                return {'t': 'list', 'v': [pv_obj(e) for e in x]}
            if isinstance(x, dict):
                return {'t': 'dict', 'v': [[to_pv(k), pv_obj(v)] for k, v in x.items()]}
            return to_pv(x)

        def canon_obj(c):
            return c
        if 'ok' in real and isinstance(real['ok'], list) and real['ok'] and real['ok'][0] == 'dict':
            real = {'ok': canon_pv(pv_obj(obj))}
        b.add_op({'op': 'pyeval', 'fn': 'ejson_hook', 'mode': 'value', 'want_tag': True, 'ext': ext,
                  'args': [to_pv(None), pv_obj(obj), to_pv(TPF), to_pv(DTPF), to_pv(DPF)]}, 'ejson_hook', real, post=lambda v: v,
                 case=[sorted(obj), repr(obj)[:120]])
    b.flush()


def run_concat(ctx, b, n):
    """`concatenate.concatenator`: the real generator over fake resource objects against the translated one"""
    CC = importlib.import_module('dataflows.processors.concatenate')
    rng = ctx.rng('pycorr-concat')

    class Res:
        def __init__(self, name, rows):
            self._rows = rows

            class R:
                pass
            self.res = R()
            self.res.name = name

        def __iter__(self):
            return iter(self._rows)
    for _ in range(n):
        tf = rng.sample(['t1', 't2', 't3', 'a'], rng.randint(1, 4))
        mp = {}
        for t in tf:
            mp[t] = t
            for src in rng.sample(['a', 'b', 'c', 'd'], rng.randint(0, 2)):
                mp.setdefault(src, t)
        ress = []
        for k in range(rng.randint(0, 3)):
            rows = [{key: rng.choice([None, 1, 'x', 0, '']) for key in rng.sample(['a', 'b', 'c', 'd', 't1', 'zz'], rng.randint(0, 4))}
                    for _ in range(rng.randint(0, 3))]
            ress.append(('r%d' % k, rows))
        import copy
        real = real_call(lambda: list(CC.concatenator([Res(nm, copy.deepcopy(rows)) for nm, rows in ress], list(tf), dict(mp))))
        args = [[{'res': {'name': nm}, '__iter__': rows} for nm, rows in ress], tf, mp]
        b.add('concatenator', args, real, case=[tf, mp, [rows for _, rows in ress]])
    b.flush()


def exc_pv(tag):
    return to_pv({'__exception__': tag, 'errors': []})


def run_driver(ctx, b, n):
    """the exception funnel: `raise_exception`, `safe_process`, `_process` — the real methods on a processor whose
    collaborators are fakes that return or raise on cue, against the translated methods with the same outcomes as tables"""
    import logging
    import tableschema
    from dataflows import DataStreamProcessor
    from dataflows.base.exceptions import ProcessorError
    from dataflows.base.datastream import DataStream
    from datapackage import Package
    rng = ctx.rng('pycorr-driver')
    CLS = {'ValueError': ValueError, 'KeyError': KeyError, 'CastError': tableschema.exceptions.CastError,
           'UniqueKeyError': tableschema.exceptions.UniqueKeyError, 'ValidationError': tableschema.exceptions.ValidationError,
           'Base:KeyboardInterrupt': KeyboardInterrupt, 'Base:GeneratorExit': GeneratorExit}

    def tag_of(e):
        if isinstance(e, ProcessorError):
            return 'PE(%s@%s)' % (tag_of(e.cause), e.processor_position)
        for t, c in CLS.items():
            if type(e) is c:
                return t
        return type(e).__name__

    def outcome(f):
        try:
            return {'ok': f()}
        except BaseException as e:  # noqa
            return {'err': 'user:' + tag_of(e)}

    def mk(tag):
        if tag.startswith('PE('):
            return ProcessorError(ValueError('inner'), processor_name='x', processor_object=None, processor_position=7)
        return CLS[tag]('boom')

    class Step(DataStreamProcessor):
        pass
    SELF = opq('self', 'step')
    old_level = logging.getLogger().level
    logging.getLogger().setLevel(logging.CRITICAL)
    try:
        tags = list(CLS) + ['PE(ValueError@7)']
        for _ in range(n):
            pos = rng.randint(1, 9)
            st = Step()
            st.position = pos
            # raise_exception
            t = rng.choice(tags)
            e = mk(t)
            real = outcome(lambda: st.raise_exception(e))
            wrapped = 'PE(%s@%s)' % (t, pos)
            ext = [['isinstance:ProcessorError', [exc_pv(t)], to_pv(t.startswith('PE('))],
                   ['exceptions.ProcessorError', [exc_pv(t), {'t': 'tuple', 'v': [to_pv('processor_name'), to_pv('Step')]},
                                                  {'t': 'tuple', 'v': [to_pv('processor_object'), SELF]},
                                                  {'t': 'tuple', 'v': [to_pv('processor_position'), to_pv(pos)]}], exc_pv(wrapped)]]
            b.add_op({'op': 'pyeval', 'fn': 'raise_exception', 'mode': 'value', 'want_tag': True, 'ext': ext,
                      'args': [SELF, exc_pv(t), to_pv({'__name__': 'Step'}), to_pv(pos)]}, 'raise_exception', real, case=[t, pos])
            # safe_process: the stream has k resources, one of them may fail while it is drained; or _process itself fails
            k = rng.randint(0, 4)
            fail_proc = rng.choice([None, None, rng.choice(tags)])
            fail_at = rng.randrange(k) if k and rng.random() < 0.6 else None
            fail_tag = rng.choice(tags) if fail_at is not None else None
            want_results = fail_proc is None and fail_at is None and rng.random() < 0.5

            def resource(i):
                yield {'i': i}
                if i == fail_at:
                    raise mk(fail_tag)
                yield {'i': -i}

            class DS:
                pass
            ds = DS()
            ds.res_iter = (resource(i) for i in range(k))

            def fake_process():
                if fail_proc:
                    raise mk(fail_proc)
                return ds
            st._process = fake_process
            real = outcome(lambda: st.safe_process(return_results=want_results))
            res_pvs = [to_pv([{'i': i}, {'i': -i}]) for i in range(k)]
            ds_pv = {'t': 'dict', 'v': [[to_pv('res_iter'), {'t': 'list', 'v': res_pvs}], [to_pv('id'), opq('ds', '')]]}
            if 'ok' in real:
                real = {'ok': ['tuple', canon_pv(ds_pv) if real['ok'][0] is ds else 'another-object', ['list'] + [canon_py(r) for r in real['ok'][1]]]}
            ext = [['._process', [SELF], ds_pv if not fail_proc else {'raise': fail_proc}], ['logging.error', [to_pv('%s'), to_pv('x')], to_pv(None)]]
            kw = {'t': 'tuple', 'v': [to_pv('maxlen'), to_pv(0)]}
            for i, rp in enumerate(res_pvs):
                ext.append(['deque', [rp, kw], to_pv(None) if i != fail_at else {'raise': fail_tag}])
            for t2 in tags:
                if t2.startswith('PE('):
                    ext.append(['.raise_exception', [SELF, exc_pv(t2)], {'raise': t2}])
                else:
                    ext.append(['.raise_exception', [SELF, exc_pv(t2)], {'raise': 'PE(%s@%s)' % (t2, pos)}])
            b.add_op({'op': 'pyeval', 'fn': 'safe_process', 'mode': 'value', 'want_tag': True, 'ext': ext,
                      'args': [SELF, to_pv(want_results), to_pv(None)]}, 'safe_process', real,
                     post=lambda v: v, case=[k, fail_proc, fail_at, fail_tag, want_results])
            # _process: the upstream chain, then the step's own package phase
            up_fail = rng.choice([None, None, rng.choice(tags)])
            pkg_fail = rng.choice([None, rng.choice(tags)])
            st2 = Step()
            st2.position = pos

            class Src:
                def _process(self):
                    if up_fail:
                        raise mk(up_fail)
                    return DataStream(Package({'resources': []}), [], [])
            st2.source = Src()

            def pd(dp):
                if pkg_fail:
                    raise mk(pkg_fail)
                return dp
            st2.process_datapackage = pd
            real = outcome(lambda: st2._process())
            if 'ok' in real:
                real = {'ok': ['str', 'ds']}
            SRC, DESC, PKG = opq('src', ''), opq('descriptor', ''), opq('package', '')
            up_pv = {'t': 'dict', 'v': [[to_pv('dp'), {'t': 'dict', 'v': [[to_pv('descriptor'), DESC]]}], [to_pv('stats'), to_pv([])]]}
            ext = [['._process', [SRC], up_pv if not up_fail else {'raise': up_fail}],
                   ['Package', [{'t': 'tuple', 'v': [to_pv('descriptor'), DESC]}], PKG],
                   ['.process_datapackage', [SELF, PKG], PKG if not pkg_fail else {'raise': pkg_fail}],
                   ['.commit', [PKG], to_pv(None)], ['.get_iterator', [SELF, up_pv], opq('it', '')], ['LazyIterator', [opq('it', '')], opq('lazy', '')],
                   ['DataStream', [PKG, opq('lazy', ''), to_pv([{}])], to_pv('ds')]]
            for t2 in tags:
                ext.append(['.raise_exception', [SELF, exc_pv(t2)], {'raise': t2 if t2.startswith('PE(') else 'PE(%s@%s)' % (t2, pos)}])
            b.add_op({'op': 'pyeval', 'fn': 'process_chain_step', 'mode': 'value', 'want_tag': True, 'ext': ext,
                      'args': [SELF, SRC, to_pv({})]}, 'process_chain_step', real, post=lambda v: v, case=[up_fail, pkg_fail, pos])
            # the default row phase: process_row of every row, the first failure ends the stream with its exception
            rows = [{'i': i} for i in range(rng.randint(0, 5))]
            bad_i = rng.randrange(len(rows)) if rows and rng.random() < 0.5 else None
            bad_tag = rng.choice(['ValueError', 'KeyError', 'CastError'])
            st3 = Step()

            def pr(row):
                if row['i'] == bad_i:
                    raise mk(bad_tag)
                return {'i': row['i'] * 10}
            st3.process_row = pr
            real = outcome(lambda: list(st3.process_resource(iter(rows))))
            if 'ok' in real:
                real = {'ok': canon_py(real['ok'])}
            ext = [['.process_row', [SELF, to_pv(r)], to_pv({'i': r['i'] * 10}) if r['i'] != bad_i else {'raise': bad_tag}] for r in rows]
            b.add_op({'op': 'pyeval', 'fn': 'default_process_resource', 'mode': 'value', 'want_tag': True, 'ext': ext,
                      'args': [SELF, to_pv(rows)]}, 'default_process_resource', real, post=lambda v: v, case=[len(rows), bad_i])
    finally:
        logging.getLogger().setLevel(old_level)
    b.flush()


def opq(kind, v):
    return {'t': 'o', 'k': kind, 'v': v}


def run_flow(ctx, b, n):
    """`Flow._chain`'s dispatch of one link, `Flow._preprocess_chain`, `checkpoint.handle_flow_checkpoint` and
    `checkpoint._preprocess_chain`: the real methods against the translated ones, the type tests / constructors as tables"""
    import inspect
    import itertools
    import os
    import shutil
    import tempfile
    from collections.abc import Iterable
    from dataflows import Flow, DataStreamProcessor
    import dataflows as DF
    from .common import quiet
    from .props.c01 import link_zoo, Marker
    CK = importlib.import_module('dataflows.processors.checkpoint')
    rng = ctx.rng('pycorr-flow')
    WR = {'row_processor': 'row', 'rows_processor': 'rows', 'datapackage_processor': 'package', 'iterable_loader': 'iterable'}
    D, P = opq('ds', 'upstream'), 1
    kw = {'t': 'tuple', 'v': [to_pv('position'), to_pv(P)]}

    class Upstream(DataStreamProcessor):
        pass
    for label, mkobj in link_zoo():
        obj = mkobj(Marker())
        L = opq('link', label)
        up = Upstream()
        try:
            with quiet():
                got = Flow(obj)._chain(up)
            if isinstance(obj, Flow):
                tag = 'nested' if got is not up else 'unchanged'
            elif got is obj:
                tag = 'processor'
            elif got is up:
                tag = 'unchanged'
            else:
                tag = WR.get(type(got).__name__, 'other:' + type(got).__name__)
            real = {'ok': ['o', 'step', tag] if tag != 'unchanged' else ['o', 'ds', 'upstream']}
        except AssertionError:
            real = {'err': 'assertion'}
        except Exception:  # noqa
            real = {'err': 'user'}
        ext = [['isinstance:Flow', [L], to_pv(isinstance(obj, Flow))],
               ['isinstance:DataStreamProcessor', [L], to_pv(isinstance(obj, DataStreamProcessor))],
               ['isfunction', [L], to_pv(inspect.isfunction(obj))], ['callable', [L], to_pv(callable(obj))],
               ['isinstance:Iterable', [L], to_pv(isinstance(obj, Iterable))],
               ['._chain', [L, D], opq('step', 'nested')], ['link', [D, kw], opq('step', 'processor')]]
        try:
            ext.append(['signature', [L], to_pv({'parameters': list(inspect.signature(obj).parameters)})])
        except Exception as e:  # noqa
            ext.append(['signature', [L], {'raise': type(e).__name__}])
        for w, k in WR.items():
            ext.append([w, [L], opq('wrap', k)])
            ext.append(['$apply', [opq('wrap', k), D, kw], opq('step', k)])
        op = {'op': 'pyeval', 'fn': 'flow_chain_body', 'mode': 'value', 'args': [], 'ext': ext, 'want': 'ds',
              'env': [['link', L], ['ds', D], ['position', to_pv(P)]]}
        b.add_op(op, 'flow_chain_body', real, post=lambda x: x, case=label)
    # folding checkpoints into the chain
    tmp = tempfile.mkdtemp(prefix='pycorr-flow-')
    try:
        for _ in range(max(20, n // 4)):
            k = rng.randint(0, 6)
            links, handled = [], set()
            for i in range(k):
                if rng.random() < 0.35:
                    own = [('own%d' % i, j) for j in range(rng.randint(0, 2))] if rng.random() < 0.3 else None
                    links.append(CK.checkpoint('cp%d' % i, checkpoint_path=tmp, steps=own))
                else:
                    links.append(('link', i))

            def enc(x):
                if isinstance(x, CK.checkpoint):
                    d = {'__checkpoint__': x.checkpoint_name}
                    if id(x) in handled:
                        d['chain'] = tuple(x.chain)
                    return {'t': 'dict', 'v': [[to_pv(kk), (to_pv(vv) if kk != 'chain' else {'t': 'tuple', 'v': [enc(e) for e in vv]})]
                                               for kk, vv in d.items()]}
                return opq('link', repr(x))
            ext = []
            for x in links:
                ext.append(['hasattr', [enc(x), to_pv('handle_flow_checkpoint')], to_pv(hasattr(x, 'handle_flow_checkpoint'))])
            # the real fold, every call of handle_flow_checkpoint recorded (and compared on its own)
            acc = []
            for x in links:
                if hasattr(x, 'handle_flow_checkpoint'):
                    before, parent = enc(x), {'t': 'list', 'v': [enc(e) for e in acc]}
                    steps = {'t': 'tuple', 'v': [opq('link', repr(e)) for e in x.steps]}
                    ret = x.handle_flow_checkpoint(acc)
                    handled.add(id(x))
                    b.add_op({'op': 'pyeval', 'fn': 'checkpoint_handle', 'mode': 'env', 'args': [before, parent, steps]},
                             'checkpoint_handle', {'ok': [['self.chain', canon_pv({'t': 'tuple', 'v': [enc(e) for e in x.chain]})],
                                                          ['self.steps', canon_pv(steps)]]},
                             post=lambda v: v, case=[repr(x.steps), len(acc)])
                    ext.append(['.handle_flow_checkpoint', [before, parent], {'t': 'list', 'v': [enc(e) for e in ret]}])
                    acc = ret
                else:
                    acc.append(x)
            expected = canon_pv({'t': 'list', 'v': [enc(e) for e in acc]})
            # ... and the real method in one go on fresh, equal objects
            handled2 = handled
            fresh = [CK.checkpoint(x.checkpoint_name, checkpoint_path=tmp, steps=list(x.steps) or None) if isinstance(x, CK.checkpoint) else x
                     for x in links]
            handled = set()
            args_links = {'t': 'tuple', 'v': [enc(x) for x in fresh]}
            got = Flow(*fresh)._preprocess_chain()
            handled = {id(x) for x in fresh}
            real = {'ok': canon_pv({'t': 'list', 'v': [enc(e) for e in got]})}
            if real['ok'] != expected:
                ctx.report.fail('pyeval:flow_preprocess:recorded-fold-differs', {'links': [repr(x) for x in links]}, {'real': real, 'expected': expected})
            handled = handled2
            b.add_op({'op': 'pyeval', 'fn': 'flow_preprocess', 'mode': 'value', 'args': [to_pv(None), args_links], 'ext': ext},
                     'flow_preprocess', real, post=lambda v: v, case=[repr(x) if not isinstance(x, CK.checkpoint) else x.checkpoint_name for x in links])
        # a checkpoint asked for its chain: file present / absent
        for i in range(max(10, n // 8)):
            name = 'q%d' % i
            chain = [('link', j) for j in range(rng.randint(0, 3))]
            cp = CK.checkpoint(name, checkpoint_path=tmp, steps=chain)
            present = rng.random() < 0.5
            if present:
                os.makedirs(cp.checkpoint_path, exist_ok=True)
                open(cp.filename, 'w').close()
            with quiet():
                got = list(cp._preprocess_chain())

            def enc2(x):
                qn = getattr(x, '__qualname__', '')
                if qn.startswith('unstream.'):
                    return opq('unstream', cp.filename)
                if qn.startswith('stream.'):
                    return opq('stream', cp.filename)
                if qn.startswith('_notify_checkpoint_saved.'):
                    return opq('notify', name)
                return opq('link', repr(x))
            real = {'ok': canon_pv({'t': 'tuple', 'v': [enc2(x) for x in got]})}
            chain_pv = {'t': 'tuple', 'v': [opq('link', repr(x)) for x in chain]}
            tail = {'t': 'tuple', 'v': [opq('stream', cp.filename), opq('notify', name)]}
            msg = ('using checkpoint data from {}' if present else 'saving checkpoint to: {}')
            ext = [['os.path.exists', [to_pv(cp.filename)], to_pv(present)],
                   ['.format', [to_pv(msg), to_pv(cp.checkpoint_path)], to_pv(msg.format(cp.checkpoint_path))],
                   ['print', [to_pv(msg.format(cp.checkpoint_path))], to_pv(None)],
                   ['unstream', [to_pv(cp.filename)], opq('unstream', cp.filename)],
                   ['stream', [to_pv(cp.filename)], opq('stream', cp.filename)],
                   ['_notify_checkpoint_saved', [to_pv(name)], opq('notify', name)],
                   ['itertools.chain', [chain_pv, tail], {'t': 'tuple', 'v': chain_pv['v'] + tail['v']}]]
            b.add_op({'op': 'pyeval', 'fn': 'checkpoint_preprocess', 'mode': 'value', 'ext': ext,
                      'args': [to_pv(None), to_pv(cp.filename), chain_pv, to_pv(cp.checkpoint_path), to_pv(name)]},
                     'checkpoint_preprocess', real, post=lambda v: v, case=[len(chain), present])
    finally:
        shutil.rmtree(tmp, ignore_errors=True)
    b.flush()


RUNNERS = {'collector': run_collector, 'worker': run_worker, 'producer': run_producer, 'fetcher': run_fetcher, 'concat_map': run_concat_map, 'sql': run_sql, 'duplicate': run_duplicate, 'get_type': run_get_type, 'select_schema': run_select_schema, 'delete_schema': run_delete_schema, 'concat': run_concat, 'ejson_hook': run_ejson_hook, 'sortkey': run_sortkey, 'ejson': run_ejson, 'driver': run_driver, 'fields': run_fields, 'flow': run_flow, 'load': run_load, 'vloop': run_vloop, 'join': run_join, 'matcher': run_matcher, 'handlers': run_handlers, 'rows': run_rows}


def run(ctx, groups=None, n=None):
    """run the pyeval correspondence of the groups that belong to this property"""
    if not ctx.model.available():
        return
    groups = groups or PROP_GROUPS.get(ctx.prop, [])
    n = n or ctx.n(120, 1500)
    from .common import CheckError
    b = Batch(ctx)
    for g in groups:
        try:
            RUNNERS[g](ctx, b, n)
        except CheckError:
            raise
        except Exception as e:  # noqa
            # a translated function can no longer be found / called as the harness knows it: the tie is broken, the check is not
            ctx.report.disagreements.append({'op': 'pyeval:%s' % g, 'case': 'the real function could not be exercised',
                                             'real': repr(e)[:300], 'model': None})
            b.ops, b.meta = [], []
