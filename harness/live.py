"""Live parameters: constants and tables the theorems are quantified over, read from
/repo's working tree on every run and written to lean/Generated/Live.lean (only when the
content changes, so an up-to-date build stays a no-op)."""
import importlib
import os

from .common import LEAN_DIR


class LiveError(Exception):
    pass


def lean_str(s):
    out = '"'
    for ch in s:
        if ch == '"':
            out += '\\"'
        elif ch == '\\':
            out += '\\\\'
        elif ch == '\n':
            out += '\\n'
        elif ch == '\r':
            out += '\\r'
        elif ch == '\t':
            out += '\\t'
        elif ord(ch) < 32:
            out += '\\x%02x' % ord(ch)
        else:
            out += ch
    return out + '"'


def lean_list(items):
    return '[' + ', '.join(items) + ']'


def opt_str(s):
    return 'none' if s is None else '(some %s)' % lean_str(s)


def get(modname, *attrs):
    try:
        obj = importlib.import_module(modname)
        for a in attrs:
            obj = getattr(obj, a)
        return obj
    except Exception as e:
        raise LiveError('cannot read %s.%s from the working tree: %r' % (modname, '.'.join(attrs), e))


# ----------------------------------------------------------------------------- code skeletons (AST)
# The effect-order models (Checkpoint/DumpFs/LoadChain) were written from the order in which these functions
# perform their watched calls.  The skeleton of each function is re-extracted from the working tree on every
# run and compared, in Lean, with the order the model assumes (DfProps/Skeleton.lean).

SKELETONS = {
    'streamFunc': ('dataflows.processors.stream', ['stream', 'func'],
                   {'write', 'close', 'rename', 'res_writer', 'flush', 'unlink', 'remove'}),
    'streamResWriter': ('dataflows.processors.stream', ['stream', 'res_writer'], {'write'}),
    'fileDumperRows': ('dataflows.processors.dumpers.file_dumper', ['FileDumper', 'rows_processor'],
                       {'write_row', 'finalize_file', 'tell', 'hash_handler', 'close', 'flush', 'write_file_to_output', 'unlink',
                        'insert_hash_in_path', 'getsize'}),
    'fileDumperDescriptor': ('dataflows.processors.dumpers.file_dumper', ['FileDumper', 'handle_datapackage'],
                             {'dump', 'tell', 'close', 'write_file_to_output', 'unlink', 'handle_datapackage'}),
    'dumperResources': ('dataflows.processors.dumpers.dumper_base', ['DumperBase', 'process_resources'],
                        {'initialize', 'process_resource', 'row_counter', 'handle_datapackage', 'finalize'}),
    'loadResources': ('dataflows.processors.load', ['load', 'process_resources'],
                      {'process_resources', 'missing_values_extractor', 'caster', 'stripper', 'limiter'}),
    'pathDumperWrite': ('dataflows.processors.dumpers.to_path', ['PathDumper', 'write_file_to_output'],
                        {'join', 'exists', 'copy', '__makedirs', 'makedirs', 'copyfile', 'move', 'rename'}),
    'checkpointChain': ('dataflows.processors.checkpoint', ['checkpoint', '_preprocess_chain'],
                        {'exists', 'unstream', 'stream', 'chain', 'isfile', '_finalize_pending', 'rename'}),
}


def _find_function(tree, qual):
    import ast
    node = tree
    for name in qual:
        found = None
        for child in ast.walk(node):
            if isinstance(child, (ast.FunctionDef, ast.ClassDef)) and child.name == name and child is not node:
                found = child
                break
        if found is None:
            return None
        node = found
    return node if isinstance(node, ast.FunctionDef) else None


def skeleton(modname, qual, watch):
    """ordered tokens of a function body: watched call names (arguments first), `yield`, `return`, and the compound
    statements (for / while / try / finally / except / with / if) that contain at least one token"""
    import ast
    import inspect
    mod = get(modname)
    try:
        tree = ast.parse(inspect.getsource(mod))
    except Exception as e:  # noqa
        raise LiveError('cannot parse %s: %r' % (modname, e))
    fn = _find_function(tree, qual)
    if fn is None:
        raise LiveError('%s.%s not found in the working tree' % (modname, '.'.join(qual)))

    def expr(node, out):
        if isinstance(node, (ast.FunctionDef, ast.Lambda, ast.ClassDef)):
            return
        for child in ast.iter_child_nodes(node):
            expr(child, out)
        if isinstance(node, ast.Call):
            f = node.func
            name = f.attr if isinstance(f, ast.Attribute) else (f.id if isinstance(f, ast.Name) else None)
            if name in watch:
                out.append(name)
        elif isinstance(node, (ast.Yield, ast.YieldFrom)):
            out.append('yield')

    def block(stmts, out):
        for st in stmts:
            stmt(st, out)

    def wrapped(tag, stmts, out):
        inner = []
        block(stmts, inner)
        if inner:
            out.extend([tag + '{'] + inner + ['}'])

    def stmt(st, out):
        if isinstance(st, (ast.FunctionDef, ast.ClassDef)):
            return
        if isinstance(st, (ast.For, ast.While)):
            expr(st.iter if isinstance(st, ast.For) else st.test, out)
            wrapped('for', st.body, out)
            wrapped('else', st.orelse, out)
        elif isinstance(st, ast.If):
            expr(st.test, out)
            wrapped('if', st.body, out)
            wrapped('else', st.orelse, out)
        elif isinstance(st, ast.Try):
            wrapped('try', st.body, out)
            for h in st.handlers:
                wrapped('except', h.body, out)
            wrapped('else', st.orelse, out)
            wrapped('finally', st.finalbody, out)
        elif isinstance(st, ast.With):
            for item in st.items:
                expr(item.context_expr, out)
            wrapped('with', st.body, out)
        elif isinstance(st, ast.Return):
            if st.value is not None:
                expr(st.value, out)
            out.append('return')
        else:
            expr(st, out)
    out = []
    block(fn.body, out)
    return out


def collect():
    p = {}
    p['sampleSize'] = int(get('dataflows.helpers.iterable_loader', 'iterable_storage', 'SAMPLE_SIZE'))
    p['activeSuffix'] = str(get('dataflows.processors.stream', 'ACTIVE_SUFFIX'))
    aggs = get('dataflows.processors.join', 'AGGREGATORS')
    try:
        p['joinAggregators'] = [(name, a.dataType, bool(a.copyProperties)) for name, a in aggs.items()]
    except Exception as e:
        raise LiveError('join.AGGREGATORS has an unexpected shape: %r' % e)
    p['computedOps'] = sorted(get('dataflows.processors.add_computed_field', 'AGGREGATORS').keys())
    csvf = get('dataflows.processors.dumpers.formats.format_csv', 'CSVFormat')
    jsonf = get('dataflows.processors.dumpers.formats.format_json', 'JSONFormat')
    p['csvSerializerTypes'] = sorted(csvf.SERIALIZERS.keys())
    p['jsonSerializerTypes'] = sorted(jsonf.SERIALIZERS.keys())
    p['csvDialectTypes'] = sorted(csvf.PYTHON_DIALECT.keys())
    p['jsonDialectTypes'] = sorted(jsonf.PYTHON_DIALECT.keys())
    p['csvNull'] = csvf.NULL_VALUE
    p['jsonNull'] = jsonf.NULL_VALUE
    b = csvf.PYTHON_DIALECT.get('boolean', {})
    p['csvTrueValues'] = list(b.get('trueValues', []))
    p['csvFalseValues'] = list(b.get('falseValues', []))
    p['csvTrueText'] = str(True)
    p['csvFalseText'] = str(False)
    n = csvf.PYTHON_DIALECT.get('number', {})
    p['csvDecimalChar'] = n.get('decimalChar')
    p['csvGroupChar'] = n.get('groupChar')
    ej = 'dataflows.helpers.extended_json'
    for name in ('DATE_F_FORMAT', 'DATETIME_F_FORMAT', 'TIME_F_FORMAT', 'DATE_P_FORMAT', 'DATETIME_P_FORMAT',
                 'TIME_P_FORMAT'):
        p[name] = str(get(ej, name))
    for key, (modname, qual, watch) in SKELETONS.items():
        p['skel_' + key] = skeleton(modname, qual, watch)
    return p


def render(p):
    L = []
    L.append('/-! GENERATED by harness/live.py from the /repo working tree — do not edit. -/')
    L.append('namespace Df.Live')
    L.append('def sampleSize : Nat := %d' % p['sampleSize'])
    L.append('def activeSuffix : String := %s' % lean_str(p['activeSuffix']))
    L.append('def joinAggregators : List (String × Option String × Bool) := %s' % lean_list(
        '(%s, %s, %s)' % (lean_str(n), opt_str(t), 'true' if c else 'false') for n, t, c in p['joinAggregators']))
    L.append('def computedOps : List String := %s' % lean_list(lean_str(s) for s in p['computedOps']))
    for k in ('csvSerializerTypes', 'jsonSerializerTypes', 'csvDialectTypes', 'jsonDialectTypes',
              'csvTrueValues', 'csvFalseValues'):
        L.append('def %s : List String := %s' % (k, lean_list(lean_str(s) for s in p[k])))
    L.append('def csvNull : Option String := %s' % opt_str(p['csvNull']))
    L.append('def jsonNull : Option String := %s' % opt_str(p['jsonNull']))
    L.append('def csvTrueText : String := %s' % lean_str(p['csvTrueText']))
    L.append('def csvFalseText : String := %s' % lean_str(p['csvFalseText']))
    L.append('def csvDecimalChar : Option String := %s' % opt_str(p['csvDecimalChar']))
    L.append('def csvGroupChar : Option String := %s' % opt_str(p['csvGroupChar']))
    for name in ('DATE_F_FORMAT', 'DATETIME_F_FORMAT', 'TIME_F_FORMAT', 'DATE_P_FORMAT', 'DATETIME_P_FORMAT',
                 'TIME_P_FORMAT'):
        L.append('def %s : String := %s' % (name.lower().replace('_f_', 'F').replace('_p_', 'P'), lean_str(p[name])))
    for key in SKELETONS:
        L.append('def %sSkeleton : List String := %s' % (key, lean_list(lean_str(t) for t in p['skel_' + key])))
    L.append('end Df.Live')
    return '\n'.join(L) + '\n'


def regenerate():
    from . import py2lean
    py2lean.regenerate()       # the translated functions (Generated/PyAst.lean)
    path = os.path.join(LEAN_DIR, 'Generated', 'Live.lean')
    text = render(collect())
    old = None
    if os.path.exists(path):
        with open(path) as f:
            old = f.read()
    if old != text:
        with open(path, 'w') as f:
            f.write(text)
    return text


if __name__ == '__main__':
    print(regenerate())
