"""Canonical encoding shared by both sides of the correspondence (DESIGN.md Appendix A)."""
import copy
import datetime
import decimal
import json
import re

from datapackage import Package


# ---------------------------------------------------------------- values

def canon_json(v):
    """canonical text of an arbitrary (nested, typed) Python value"""
    return json.dumps(_plain(v), sort_keys=True, ensure_ascii=False)


def _plain(v):
    if v is None or isinstance(v, (bool, str)):
        return v
    if isinstance(v, int):
        return {'$int': str(v)}
    if isinstance(v, float):
        return {'$num': _dec_norm(decimal.Decimal(v))}
    if isinstance(v, decimal.Decimal):
        return {'$num': _dec_norm(v)}
    if isinstance(v, datetime.datetime):
        return {'$datetime': v.isoformat()}
    if isinstance(v, datetime.date):
        return {'$date': v.isoformat()}
    if isinstance(v, datetime.time):
        return {'$time': v.isoformat()}
    if isinstance(v, datetime.timedelta):
        return {'$dur': v.total_seconds()}
    if isinstance(v, (list, tuple)):
        return [_plain(x) for x in v]
    if isinstance(v, (set, frozenset)):
        return {'$set': sorted(canon_json(x) for x in v)}
    if isinstance(v, dict):
        return {str(k): _plain(x) for k, x in v.items()}
    return {'$repr': repr(v)}


def _dec_norm(d):
    if not d.is_finite():
        return str(d)
    sign, digits, exp = d.as_tuple()
    m = int(''.join(map(str, digits)) or '0')
    if m == 0:
        return '0e0'
    while m % 10 == 0:
        m //= 10
        exp += 1
    return '%s%de%d' % ('-' if sign else '', m, exp)


def enc_val(v):
    if v is None:
        return {'t': 'null'}
    if isinstance(v, bool):
        return {'t': 'bool', 'v': v}
    if isinstance(v, int):
        return {'t': 'int', 'v': str(v)}
    if isinstance(v, (decimal.Decimal, float)):
        d = decimal.Decimal(v)
        if d.is_finite():
            sign, digits, exp = d.as_tuple()
            m = int(''.join(map(str, digits)) or '0')
            return {'t': 'dec', 'm': str(-m if sign else m), 'e': str(exp)}
        return {'t': 'o', 'k': 'num', 'v': str(d)}
    if isinstance(v, str):
        return {'t': 'str', 'v': v}
    if isinstance(v, datetime.datetime):
        return {'t': 'o', 'k': 'datetime', 'v': v.isoformat()}
    if isinstance(v, datetime.date):
        return {'t': 'o', 'k': 'date', 'v': v.isoformat()}
    if isinstance(v, datetime.time):
        return {'t': 'o', 'k': 'time', 'v': v.isoformat()}
    if isinstance(v, (list, tuple)):
        return {'t': 'o', 'k': 'array', 'v': canon_json(list(v))}
    if isinstance(v, dict):
        return {'t': 'o', 'k': 'object', 'v': canon_json(v)}
    return {'t': 'o', 'k': type(v).__name__, 'v': canon_json(v)}


def norm_val(e):
    """normal form of an encoded value for comparison (decimals normalised; int stays int)"""
    if e['t'] == 'dec':
        m, ex = int(e['m']), int(e['e'])
        if m == 0:
            return {'t': 'dec', 'm': '0', 'e': '0'}
        while m % 10 == 0:
            m //= 10
            ex += 1
        return {'t': 'dec', 'm': str(m), 'e': str(ex)}
    if e['t'] == 'int':
        return {'t': 'int', 'v': str(int(e['v']))}
    return e


def enc_row(row):
    return [[str(k), enc_val(v)] for k, v in row.items()]


def norm_row(erow):
    """rows compare as dicts: sorted by key, values normalised"""
    return sorted([[k, norm_val(v)] for k, v in erow], key=lambda kv: kv[0])


# ---------------------------------------------------------------- descriptors

IGNORED_RES_KEYS = {'name', 'path', 'schema', 'profile'}


def enc_field(f):
    rest = {k: v for k, v in f.items() if k not in ('name', 'type') and not (k == 'format' and v == 'default')}
    return {'name': f['name'], 'type': f.get('type', ''), 'rest': canon_json(rest) if rest else ''}


def enc_res_desc(d):
    schema = d.get('schema', {}) or {}
    pk = schema.get('primaryKey', [])
    if isinstance(pk, str):
        pk = [pk]
    props = sorted([[k, canon_json(v)] for k, v in d.items() if k not in IGNORED_RES_KEYS])
    path = d.get('path', '')
    if isinstance(path, list):
        path = path[0] if path else ''
    return {'name': d['name'], 'path': path or '',
            'fields': [enc_field(f) for f in schema.get('fields', [])],
            'pk': list(pk or []), 'props': props}


def enc_pkg(descriptor, rows_per_res):
    out = []
    for d, rows in zip(descriptor.get('resources', []), rows_per_res):
        e = enc_res_desc(d)
        e['rows'] = [enc_row(r) for r in rows]
        out.append(e)
    return out


def norm_pkg(epkg, ignore_props=('mediatype', 'format', 'encoding', 'dialect', 'dpp:streaming')):
    """projection used when comparing model and implementation outputs"""
    out = []
    for r in epkg:
        out.append({
            'name': r['name'], 'path': r.get('path', ''),
            'fields': [[f['name'], f.get('type', ''), f.get('rest', '')] for f in r.get('fields', [])],
            'pk': list(r.get('pk', [])),
            'props': sorted([p for p in r.get('props', []) if p[0] not in ignore_props]),
            'rows': [norm_row(row) for row in r.get('rows', [])],
        })
    return out


# ---------------------------------------------------------------- feeding a package to real code

def pkg_source(descriptor, rows_per_res):
    """a `package` step that emits the given (deep-copied) descriptor and rows"""
    descriptor = copy.deepcopy(descriptor)
    rows_per_res = copy.deepcopy(rows_per_res)

    def source(package):
        yield Package(descriptor)
        for rows in rows_per_res:
            yield iter(rows)
    return source


def make_descriptor(resources):
    """resources: list of dict(name, fields=[(name,type)|dict], pk=[...], props={})"""
    out = []
    for r in resources:
        fields = []
        for f in r['fields']:
            if isinstance(f, dict):
                fields.append(dict(f))
            else:
                fields.append({'name': f[0], 'type': f[1]})
        schema = {'fields': fields}
        if r.get('pk'):
            schema['primaryKey'] = list(r['pk'])
        d = {'name': r['name'], 'path': r.get('path', r['name'] + '.csv'), 'schema': schema}
        d.update(r.get('props', {}))
        out.append(d)
    return {'resources': out}


# ---------------------------------------------------------------- regex oracle tables

def regex_ext(pmatch=(), full=(), sub=()):
    """pmatch/full: iterable of (pattern, subject); sub: (pattern, repl, subject).
    A pattern Python rejects is recorded as never matching; callers that may generate
    invalid patterns must treat the real-side re.error separately."""
    ext = {'pmatch': [], 'full': [], 'sub': []}
    for p, s in set(pmatch):
        try:
            ext['pmatch'].append([p, s, re.compile(p).match(s) is not None])
        except re.error:
            ext['pmatch'].append([p, s, False])
    for p, s in set(full):
        try:
            ext['full'].append([p, s, re.compile(p).fullmatch(s) is not None])
        except re.error:
            ext['full'].append([p, s, False])
    for p, r, s in set(sub):
        try:
            ext['sub'].append([p, r, s, re.sub(p, r, s)])
        except (re.error, IndexError):
            ext['sub'].append([p, r, s, s])
    for k in ext:
        ext[k].sort()
    return ext


RE_SPECIAL = set('()[]{}?*+-|^$\\.&~# \t\n\r\v\f')


def anchored(regex, f):
    return '^' + (f if regex else re.escape(f)) + '$'


def enc_sel(sel):
    if sel is None:
        return None
    if isinstance(sel, str):
        return {'re': sel}
    if isinstance(sel, bool):
        raise ValueError('bool selector')
    if isinstance(sel, int):
        return {'idx': sel}
    return {'names': list(sel)}


def shared_between_resources(descriptor):
    """mutable objects (dict / list) reachable from the descriptors of two different resources: [(path_a, path_b)]"""
    seen = {}
    out = []

    def walk(obj, res_index, path):
        if isinstance(obj, (dict, list)):
            key = id(obj)
            if key in seen and seen[key][0] != res_index:
                out.append((seen[key][1], path))
                return
            seen.setdefault(key, (res_index, path))
            items = obj.items() if isinstance(obj, dict) else enumerate(obj)
            for k, v in items:
                walk(v, res_index, '%s/%s' % (path, k))
    for i, r in enumerate(descriptor.get('resources', [])):
        walk(r, i, 'resources/%d' % i)
    return out
