"""Crash-point control from outside the repository.

A child process builds a flow from a scenario (`module:function(params)`), with every
file-system operation that touches the watched directory intercepted at the Python level
(builtins.open → write / flush / close of the returned file, os.rename, os.unlink, the chunked
writes of shutil.copy).  Before the k-th such operation the child can kill itself with a real
SIGKILL, so buffered data is lost exactly as in a real crash.  The list of operations performed
is appended (unbuffered) to a trace file and doubles as the `fs-trace` of the correspondence.
"""
import builtins
import importlib
import json
import os
import signal
import subprocess
import sys

from .common import VERIF, REPO


# ----------------------------------------------------------------------------- child side

class Tracer:
    def __init__(self, watch, kill_at, trace_path, fail_at=-1):
        self.watch = os.path.abspath(watch)
        self.kill_at = kill_at
        self.fail_at = fail_at
        self.n = 0
        self.fd = os.open(trace_path, os.O_WRONLY | os.O_CREAT | os.O_APPEND, 0o644)

    def watched(self, path):
        try:
            return os.path.abspath(str(path)).startswith(self.watch)
        except Exception:
            return False

    def rel(self, path):
        return os.path.relpath(os.path.abspath(str(path)), self.watch)

    def point(self, *label):
        if self.n == self.kill_at:
            os.kill(os.getpid(), signal.SIGKILL)
        os.write(self.fd, (json.dumps([self.n] + list(label)) + '\n').encode('utf-8'))
        self.n += 1
        if self.n - 1 == self.fail_at:
            # an I/O error instead of a crash: the operation fails once (the process lives on and may handle it)
            raise OSError(5, 'injected I/O error')


class FileProxy:
    def __init__(self, real, tracer, path):
        object.__setattr__(self, '_real', real)
        object.__setattr__(self, '_tracer', tracer)
        object.__setattr__(self, '_path', path)

    def write(self, data):
        text = data if isinstance(data, str) else data.decode('utf-8', 'replace')
        self._tracer.point('write', self._path, text)
        return self._real.write(data)

    def flush(self):
        self._tracer.point('flush', self._path)
        return self._real.flush()

    def close(self):
        if not self._real.closed:
            self._tracer.point('close', self._path)
        return self._real.close()

    def __enter__(self):
        self._real.__enter__()
        return self

    def __exit__(self, *a):
        self.close()
        return False

    def __iter__(self):
        return iter(self._real)

    def __getattr__(self, name):
        return getattr(self._real, name)

    def __setattr__(self, name, value):
        setattr(self._real, name, value)


def install(tracer, copy_bufsize):
    import shutil
    real_open = builtins.open
    real_rename = os.rename
    real_unlink = os.unlink
    real_remove = os.remove

    def open_(file, mode='r', *a, **kw):
        if isinstance(file, (str, bytes, os.PathLike)) and any(c in mode for c in 'wax+') and tracer.watched(file):
            p = tracer.rel(file)
            tracer.point('open', p, mode)
            return FileProxy(real_open(file, mode, *a, **kw), tracer, p)
        return real_open(file, mode, *a, **kw)

    def rename(src, dst, *a, **kw):
        if tracer.watched(src) or tracer.watched(dst):
            tracer.point('rename', tracer.rel(src), tracer.rel(dst))
        return real_rename(src, dst, *a, **kw)

    def unlink(path, *a, **kw):
        if tracer.watched(path):
            tracer.point('unlink', tracer.rel(path))
        return real_unlink(path, *a, **kw)

    def remove(path, *a, **kw):
        if tracer.watched(path):
            tracer.point('unlink', tracer.rel(path))
        return real_remove(path, *a, **kw)

    builtins.open = open_
    os.rename = rename
    os.unlink = unlink
    os.remove = remove
    # make shutil.copy go through write() calls of a small size so that a crash can fall inside a copy
    shutil._USE_CP_SENDFILE = False
    if hasattr(shutil, '_HAS_FCOPYFILE'):
        shutil._HAS_FCOPYFILE = False
    shutil.COPY_BUFSIZE = copy_bufsize


def child_main(cfg_path):
    with open(cfg_path) as f:
        cfg = json.load(f)
    sys.path.insert(0, VERIF)
    modname, fn = cfg['scenario'].split(':')
    mod = importlib.import_module(modname)
    tracer = Tracer(cfg['watch'], cfg.get('kill_at', -1), cfg['trace'], cfg.get('fail_at', -1))
    install(tracer, cfg.get('copy_bufsize', 64))
    out = getattr(mod, fn)(cfg['params'])
    real_open = builtins.open
    with real_open(cfg['result'], 'w') as f:   # outside the watched directory
        json.dump(out, f, default=str)
    return 0


# ----------------------------------------------------------------------------- parent side

def run_child(scenario, params, watch, workdir, tag, kill_at=-1, copy_bufsize=64, timeout=120, fail_at=-1):
    """→ dict(returncode, trace=[ops], result=obj|None)"""
    os.makedirs(workdir, exist_ok=True)
    cfg = {'scenario': scenario, 'params': params, 'watch': watch, 'kill_at': kill_at, 'fail_at': fail_at,
           'trace': os.path.join(workdir, 'trace-%s.jsonl' % tag), 'result': os.path.join(workdir, 'result-%s.json' % tag),
           'copy_bufsize': copy_bufsize}
    for k in ('trace', 'result'):
        if os.path.exists(cfg[k]):
            os.unlink(cfg[k])
    cfg_path = os.path.join(workdir, 'cfg-%s.json' % tag)
    with open(cfg_path, 'w') as f:
        json.dump(cfg, f)
    env = dict(os.environ)
    env['PYTHONDONTWRITEBYTECODE'] = '1'
    try:
        p = subprocess.run([sys.executable, '-W', 'ignore', '-m', 'harness.fsfault', cfg_path], cwd=VERIF, env=env,
                           stdout=subprocess.DEVNULL, stderr=subprocess.PIPE, timeout=timeout)
        rc = p.returncode
        err = p.stderr.decode('utf-8', 'replace')[-800:]
    except subprocess.TimeoutExpired:
        rc, err = 'timeout', ''
    trace = []
    if os.path.exists(cfg['trace']):
        with open(cfg['trace']) as f:
            for line in f:
                line = line.strip()
                if line:
                    try:
                        trace.append(json.loads(line))
                    except ValueError:
                        pass
    result = None
    if os.path.exists(cfg['result']):
        with open(cfg['result']) as f:
            try:
                result = json.load(f)
            except ValueError:
                result = None
    return {'returncode': rc, 'trace': trace, 'result': result, 'stderr': err}


if __name__ == '__main__':
    sys.exit(child_main(sys.argv[1]))
